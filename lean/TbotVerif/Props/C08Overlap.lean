import TbotVerif.Model.Channel
/-! C08 — characterisation of `Chan.overlap`: the length of the LONGEST suffix of the buffer
    that is a prefix of the prompt, and its behaviour when more data is appended to a buffer of
    which only the held-back suffix is still known (`overlap_ext`). -/

namespace C08
open Chan

/-- the last `i` elements -/
def lastN (i : Nat) (l : Bytes) : Bytes := l.drop (l.length - i)

theorem lastN_zero (l : Bytes) : lastN 0 l = [] := by
  simp [lastN]

theorem length_lastN (i : Nat) (l : Bytes) (h : i ≤ l.length) : (lastN i l).length = i := by
  simp only [lastN, List.length_drop]; omega

theorem lastN_append_le (i : Nat) (a b : Bytes) (h : i ≤ b.length) : lastN i (a ++ b) = lastN i b := by
  simp only [lastN, List.length_append]
  rw [List.drop_append]
  have h1 : List.drop (a.length + b.length - i) a = [] := List.drop_eq_nil_of_le (by omega)
  have h2 : a.length + b.length - i - a.length = b.length - i := by omega
  rw [h1, h2, List.nil_append]

theorem lastN_append_ge (i : Nat) (a b : Bytes) (h : b.length ≤ i) :
    lastN i (a ++ b) = lastN (i - b.length) a ++ b := by
  simp only [lastN, List.length_append]
  rw [List.drop_append]
  have h1 : a.length + b.length - i - a.length = 0 := by omega
  have h2 : a.length + b.length - i = a.length - (i - b.length) := by omega
  rw [h1, h2, List.drop_zero]

theorem lastN_suffix (i : Nat) (l : Bytes) : lastN i l <:+ l := List.drop_suffix _ _

theorem lastN_all (i : Nat) (l : Bytes) (h : l.length ≤ i) : lastN i l = l := by
  have : l.length - i = 0 := by omega
  simp [lastN, this]

/-- a suffix of known length is `lastN` -/
theorem eq_lastN_of_suffix {t l : Bytes} (h : t <:+ l) : t = lastN t.length l := by
  obtain ⟨u, rfl⟩ := h
  rw [lastN_append_le _ _ _ (Nat.le_refl _), lastN_all _ _ (Nat.le_refl _)]

/-- the last `i` bytes of `buf` are the first `i` bytes of `p` -/
def Ov (p buf : Bytes) (i : Nat) : Prop := lastN i buf = p.take i

theorem Ov_zero (p buf : Bytes) : Ov p buf 0 := by
  simp [Ov, lastN_zero]

/-- reading of `Ov` in terms of suffixes and prefixes -/
theorem Ov_iff (p buf : Bytes) (i : Nat) (hb : i ≤ buf.length) :
    Ov p buf i ↔ ∃ t, t <:+ buf ∧ t <+: p ∧ t.length = i := by
  constructor
  · intro h
    refine ⟨lastN i buf, lastN_suffix i buf, ?_, length_lastN i buf hb⟩
    rw [h]; exact List.take_prefix _ _
  · rintro ⟨t, hs, hpre, hl⟩
    unfold Ov
    rw [← hl, ← eq_lastN_of_suffix hs]
    exact List.prefix_iff_eq_take.mp hpre

/-! ### what `overlap` computes -/

theorem overlap_le (p buf : Bytes) : ∀ m, overlap p buf m ≤ m := by
  intro m
  induction m with
  | zero => simp [overlap]
  | succ i ih =>
    unfold overlap
    split
    · exact Nat.le_refl _
    · exact Nat.le_succ_of_le ih

theorem overlap_ov (p buf : Bytes) : ∀ m, Ov p buf (overlap p buf m) := by
  intro m
  induction m with
  | zero => exact Ov_zero p buf
  | succ i ih =>
    unfold overlap
    split
    · rename_i h
      exact beq_iff_eq.mp h
    · exact ih

theorem overlap_max (p buf : Bytes) : ∀ m j, j ≤ m → Ov p buf j → j ≤ overlap p buf m := by
  intro m
  induction m with
  | zero => intro j hj _; omega
  | succ i ih =>
    intro j hj hov
    unfold overlap
    split
    · exact hj
    · rename_i hne
      rcases Nat.lt_or_ge j (i + 1) with h | h
      · exact ih j (by omega) hov
      · have : j = i + 1 := by omega
        subst this
        exact absurd (beq_iff_eq.mpr hov) hne

/-- **`overlap p buf m` is the largest `i ≤ m` with `drop (len - i) buf = take i p`.** -/
theorem overlap_spec (p buf : Bytes) (m : Nat) :
    overlap p buf m ≤ m
    ∧ buf.drop (buf.length - overlap p buf m) = p.take (overlap p buf m)
    ∧ ∀ j, j ≤ m → buf.drop (buf.length - j) = p.take j → j ≤ overlap p buf m :=
  ⟨overlap_le p buf m, overlap_ov p buf m, fun j hj h => overlap_max p buf m j hj h⟩

theorem overlap_unique (p buf : Bytes) (m k : Nat) (hk : k ≤ m) (hov : Ov p buf k)
    (hmax : ∀ j, j ≤ m → Ov p buf j → j ≤ k) : overlap p buf m = k :=
  Nat.le_antisymm (hmax _ (overlap_le p buf m) (overlap_ov p buf m)) (overlap_max p buf m k hk hov)

/-- the held-back length as the model computes it -/
def ovl (p buf : Bytes) : Nat := overlap p buf (min p.length buf.length)

theorem ovl_le_buf (p buf : Bytes) : ovl p buf ≤ buf.length :=
  Nat.le_trans (overlap_le _ _ _) (Nat.min_le_right _ _)

theorem ovl_le_prompt (p buf : Bytes) : ovl p buf ≤ p.length :=
  Nat.le_trans (overlap_le _ _ _) (Nat.min_le_left _ _)

/-- **the held-back bytes are the LONGEST suffix of the buffer that is a prefix of the prompt** -/
theorem ovl_longest (p buf : Bytes) :
    (lastN (ovl p buf) buf <:+ buf ∧ lastN (ovl p buf) buf <+: p ∧ (lastN (ovl p buf) buf).length = ovl p buf)
    ∧ ∀ t, t <:+ buf → t <+: p → t.length ≤ ovl p buf := by
  refine ⟨⟨lastN_suffix _ _, ?_, length_lastN _ _ (ovl_le_buf p buf)⟩, ?_⟩
  · have : lastN (ovl p buf) buf = p.take (ovl p buf) := overlap_ov p buf _
    rw [this]; exact List.take_prefix _ _
  · intro t hs hp
    have hb : t.length ≤ buf.length := hs.length_le
    have hpl : t.length ≤ p.length := hp.length_le
    exact overlap_max p buf _ t.length (Nat.le_min.mpr ⟨hpl, hb⟩)
      ((Ov_iff p buf t.length hb).mpr ⟨t, hs, hp, rfl⟩)

/-- a buffer that ends with the prompt holds back exactly the prompt -/
theorem ovl_of_suffix (p buf : Bytes) (h : p <:+ buf) : ovl p buf = p.length := by
  have hb : p.length ≤ buf.length := h.length_le
  refine overlap_unique p buf _ _ (Nat.le_min.mpr ⟨Nat.le_refl _, hb⟩) ?_ (fun j hj _ => ?_)
  · exact (Ov_iff p buf p.length hb).mpr ⟨p, h, List.prefix_refl p, rfl⟩
  · exact Nat.le_trans hj (Nat.min_le_left _ _)

/-! ### appending data when only the held-back suffix is remembered -/

/-- with `sb` the longest held-back suffix of `fw ++ sb`, the overlaps of `fw ++ sb ++ buf`
    are exactly the overlaps of `sb ++ buf` -/
theorem Ov_ext (p fw sb buf : Bytes)
    (hmax : ∀ j, j ≤ p.length → j ≤ (fw ++ sb).length → Ov p (fw ++ sb) j → j ≤ sb.length)
    (j : Nat) (hjp : j ≤ p.length) (hj : j ≤ (fw ++ sb ++ buf).length) :
    Ov p (fw ++ sb ++ buf) j ↔ (j ≤ (sb ++ buf).length ∧ Ov p (sb ++ buf) j) := by
  simp only [List.length_append] at hj ⊢
  rcases Nat.le_total j buf.length with hle | hge
  · unfold Ov
    rw [lastN_append_le j (fw ++ sb) buf hle, lastN_append_le j sb buf hle]
    exact ⟨fun h => ⟨by omega, h⟩, fun h => h.2⟩
  · -- the overlap reaches into the old data
    have key : ∀ i, i ≤ sb.length → lastN i (fw ++ sb) = lastN i sb := fun i hi => lastN_append_le i fw sb hi
    unfold Ov
    rw [lastN_append_ge j (fw ++ sb) buf hge, lastN_append_ge j sb buf hge]
    constructor
    · intro h
      -- the first `j - |buf|` bytes give an overlap of the old buffer
      have hi : j - buf.length ≤ (fw ++ sb).length := by simp only [List.length_append]; omega
      have hlen := length_lastN (j - buf.length) (fw ++ sb) hi
      have hov : Ov p (fw ++ sb) (j - buf.length) := by
        unfold Ov
        have := congrArg (List.take (j - buf.length)) h
        rw [List.take_append_of_le_length (by omega), List.take_of_length_le (by omega), List.take_take] at this
        rw [this, Nat.min_eq_left (by omega)]
      have hsb := hmax (j - buf.length) (by omega) hi hov
      refine ⟨by omega, ?_⟩
      rw [← key _ hsb]; exact h
    · rintro ⟨hjl, h⟩
      rw [key _ (by omega)]; exact h

/-- **the model's hold-back after appending `buf` is the hold-back of the whole data** -/
theorem ovl_ext (p fw sb buf : Bytes) (hlen : sb.length = ovl p (fw ++ sb)) :
    ovl p (sb ++ buf) = ovl p (fw ++ sb ++ buf) := by
  have hmax : ∀ j, j ≤ p.length → j ≤ (fw ++ sb).length → Ov p (fw ++ sb) j → j ≤ sb.length := by
    intro j hjp hjl hov
    rw [hlen]
    exact overlap_max p (fw ++ sb) _ j (Nat.le_min.mpr ⟨hjp, hjl⟩) hov
  have hlenle : (sb ++ buf).length ≤ (fw ++ sb ++ buf).length := by
    simp only [List.length_append]; omega
  apply Nat.le_antisymm
  · -- the overlap of the short buffer is an overlap of the long one
    have h1 := ovl_le_prompt p (sb ++ buf)
    have h2 := ovl_le_buf p (sb ++ buf)
    have hov : Ov p (sb ++ buf) (ovl p (sb ++ buf)) := overlap_ov _ _ _
    exact overlap_max p (fw ++ sb ++ buf) _ _ (Nat.le_min.mpr ⟨h1, by omega⟩)
      ((Ov_ext p fw sb buf hmax _ h1 (by omega)).mpr ⟨h2, hov⟩)
  · have h1 := ovl_le_prompt p (fw ++ sb ++ buf)
    have h2 := ovl_le_buf p (fw ++ sb ++ buf)
    have hov : Ov p (fw ++ sb ++ buf) (ovl p (fw ++ sb ++ buf)) := overlap_ov _ _ _
    obtain ⟨h3, h4⟩ := (Ov_ext p fw sb buf hmax _ h1 h2).mp hov
    exact overlap_max p (sb ++ buf) _ _ (Nat.le_min.mpr ⟨h1, h3⟩) h4

end C08
