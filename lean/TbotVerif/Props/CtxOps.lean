import TbotVerif.Props.CtxSteps
set_option linter.unusedSimpArgs false
set_option linter.unusedVariables false
/-! Hoare-style specifications of the recursive operations of the context model
    (`teardown`, leaving / entering a request, `init`) on every dependency level:
    they preserve `Inv` whenever they are applied to a class strictly below every busy class. -/
namespace Ctx

/-! ### what happens to frames -/

/-- transition summary: identities only grow; an open frame disappears only if it is one of `X`
    or was held by a `from_context` generator; frames that are newly held are new -/
structure Tr (X : List Frame) (s s' : St) : Prop where
  nFrame_le : s.nFrame ≤ s'.nFrame
  gone : ∀ f ∈ s.open_, f ∉ s'.open_ → f ∈ X ∨ ∃ k, f ∈ (s.mgrs k).held
  newHeld : ∀ k f, f ∈ (s'.mgrs k).held → f ∈ (s.mgrs k).held ∨ s.nFrame ≤ f.id
  nObj_le : s.nObj ≤ s'.nObj

theorem Tr.refl (s : St) : Tr [] s s :=
  ⟨Nat.le_refl _, fun f hf hn => absurd hf hn, fun k f hf => Or.inl hf, Nat.le_refl _⟩

theorem Tr.of_ext {s s' : St} (x : Ext s s') : Tr [] s s' := by
  refine ⟨by rw [x.nFrame]; exact Nat.le_refl _, ?_, ?_, by rw [x.nObj]; exact Nat.le_refl _⟩
  · intro f hf hn; rw [x.open_] at hn; exact absurd hf hn
  · intro k f hf; rw [x.mgrs] at hf; exact Or.inl hf

theorem Tr.mono {X Y : List Frame} {s s' : St} (h : Tr X s s') (hs : ∀ f ∈ X, f ∈ Y) : Tr Y s s' :=
  ⟨h.nFrame_le, fun f hf hn => (h.gone f hf hn).imp (hs f) id, h.newHeld, h.nObj_le⟩

theorem Tr.trans {X Y : List Frame} {a b c : St} (h1 : Tr X a b) (h2 : Tr Y b c)
    (hw : ∀ f ∈ a.open_, f.id < a.nFrame) : Tr (X ++ Y) a c := by
  refine ⟨Nat.le_trans h1.nFrame_le h2.nFrame_le, ?_, ?_, Nat.le_trans h1.nObj_le h2.nObj_le⟩
  · intro f hf hn
    by_cases hb : f ∈ b.open_
    · rcases h2.gone f hb hn with hY | ⟨k, hk⟩
      · exact Or.inl (List.mem_append_right _ hY)
      · rcases h1.newHeld k f hk with hk' | hge
        · exact Or.inr ⟨k, hk'⟩
        · have := hw f hf; omega
    · rcases h1.gone f hf hb with hX | hk
      · exact Or.inl (List.mem_append_left _ hX)
      · exact Or.inr hk
  · intro k f hf
    rcases h2.newHeld k f hf with hk | hge
    · exact h1.newHeld k f hk
    · exact Or.inr (Nat.le_trans h1.nFrame_le hge)

theorem Tr.trans_nil {X : List Frame} {a b c : St} (h1 : Tr X a b) (h2 : Tr [] b c)
    (hw : ∀ f ∈ a.open_, f.id < a.nFrame) : Tr X a c := by
  simpa using h1.trans h2 hw

theorem Tr.nil_trans {X : List Frame} {a b c : St} (h1 : Tr [] a b) (h2 : Tr X b c)
    (hw : ∀ f ∈ a.open_, f.id < a.nFrame) : Tr X a c := by
  simpa using h1.trans h2 hw

theorem Inv.idLt {B : List Nat} {s : St} (h : Inv B s) : ∀ f ∈ s.open_, f.id < s.nFrame :=
  fun f hf => (h.frameWf f hf).2.2

theorem Pend.tr {L X : List Frame} {s s' : St} (hp : Pend L s) (t : Tr X s s')
    (hw : ∀ f ∈ s.open_, f.id < s.nFrame) (hx : ∀ f ∈ L, f ∉ X) : Pend L s' := by
  refine ⟨hp.nodup, ?_, ?_⟩
  · intro f hf
    apply Classical.byContradiction
    intro hn
    rcases t.gone f (hp.isOpen f hf) hn with h | ⟨k, hk⟩
    · exact hx f hf h
    · exact hp.notHeld f hf k hk
  · intro f hf k hk
    rcases t.newHeld k f hk with h | h
    · exact hp.notHeld f hf k h
    · have := hw f (hp.isOpen f hf); omega

theorem Pend.nil (s : St) : Pend [] s := ⟨List.nodup_nil, by simp, by simp⟩

theorem Pend.tail {f : Frame} {L : List Frame} {s : St} (h : Pend (f :: L) s) : Pend L s :=
  ⟨(List.nodup_cons.mp h.nodup).2, fun g hg => h.isOpen g (List.mem_cons_of_mem _ hg),
   fun g hg => h.notHeld g (List.mem_cons_of_mem _ hg)⟩

theorem nodup_reverse' {α : Type} {l : List α} (h : l.Nodup) : l.reverse.Nodup := by
  unfold List.Nodup at *
  rw [List.pairwise_reverse]
  exact h.imp (fun hab => Ne.symm hab)

theorem Pend.reverse {L : List Frame} {s : St} (h : Pend L s) : Pend L.reverse s :=
  ⟨nodup_reverse' h.nodup, fun g hg => h.isOpen g (List.mem_reverse.mp hg),
   fun g hg => h.notHeld g (List.mem_reverse.mp hg)⟩

/-! ### transition summaries of the atomic steps -/

theorem Tr.downed (s : St) (c o : Nat) : Tr [] s (s.downed c o) := by
  refine ⟨Nat.le_refl _, fun f hf hn => absurd hf hn, ?_, Nat.le_refl _⟩
  intro k f hf
  simp only [St.downed] at hf
  by_cases hk : k = c
  · subst hk; simp at hf
  · simp [hk] at hf; exact Or.inl hf

theorem Tr.cleared (s : St) (c : Nat) : Tr [] s (s.cleared c) := by
  refine ⟨Nat.le_refl _, fun f hf hn => absurd hf hn, ?_, Nat.le_refl _⟩
  intro k f hf
  simp only [St.cleared] at hf
  by_cases hk : k = c
  · subst hk; simp at hf; exact Or.inl hf
  · simp [hk] at hf; exact Or.inl hf

theorem Tr.setAvail (s : St) (c : Nat) (b : Bool) : Tr [] s (s.setAvail c b) := by
  refine ⟨Nat.le_refl _, fun f hf hn => absurd hf hn, ?_, Nat.le_refl _⟩
  intro k f hf
  simp only [St.setAvail] at hf
  by_cases hk : k = c
  · subst hk; simp at hf; exact Or.inl hf
  · simp [hk] at hf; exact Or.inl hf

theorem Tr.frameOut {B : List Nat} {s : St} (h : Inv B s) {f : Frame} (hf : f ∈ s.open_) :
    Tr [f] s (s.frameOut f) := by
  refine ⟨Nat.le_refl _, ?_, ?_, Nat.le_refl _⟩
  · intro g hg hn
    simp only [St.frameOut] at hn
    left
    have : ¬ (g ∈ s.open_ ∧ g.id ≠ f.id) := fun hh => hn (mem_dropId.mpr hh)
    have hid : g.id = f.id := by
      apply Classical.byContradiction
      intro hne
      exact this ⟨hg, hne⟩
    simp [h.idsNodup.eq_of_id hg hf hid]
  · intro k g hg
    simp only [St.frameOut] at hg
    by_cases hk : k = f.cls
    · subst hk; simp at hg; exact Or.inl hg
    · simp [hk] at hg; exact Or.inl hg

theorem Tr.frameIn (s : St) (fr : Frame) (av : Bool) : Tr [] s (s.frameIn fr av) := by
  refine ⟨by simp [St.frameIn], ?_, ?_, Nat.le_refl _⟩
  · intro g hg hn
    simp [St.frameIn] at hn
    exact absurd hg hn.1
  · intro k g hg
    simp only [St.frameIn] at hg
    by_cases hk : k = fr.cls
    · subst hk; simp at hg; exact Or.inl hg
    · simp [hk] at hg; exact Or.inl hg

/-- a transition that leaves the managers of the busy classes `B` alone -/
structure Step (B : List Nat) (X : List Frame) (s s' : St) : Prop where
  tr : Tr X s s'
  keep : ∀ b ∈ B, s'.mgrs b = s.mgrs b

theorem Step.refl (B : List Nat) (s : St) : Step B [] s s := ⟨Tr.refl s, fun _ _ => rfl⟩

theorem Step.of_ext (B : List Nat) {s s' : St} (x : Ext s s') : Step B [] s s' :=
  ⟨Tr.of_ext x, fun b _ => by rw [x.mgrs]⟩

theorem Step.trans {B : List Nat} {X Y : List Frame} {a b c : St} (h1 : Step B X a b)
    (h2 : Step B Y b c) (hw : ∀ f ∈ a.open_, f.id < a.nFrame) : Step B (X ++ Y) a c :=
  ⟨h1.tr.trans h2.tr hw, fun k hk => (h2.keep k hk).trans (h1.keep k hk)⟩

theorem Step.trans_nil {B : List Nat} {X : List Frame} {a b c : St} (h1 : Step B X a b)
    (h2 : Step B [] b c) (hw : ∀ f ∈ a.open_, f.id < a.nFrame) : Step B X a c := by
  simpa using h1.trans h2 hw

theorem Step.nil_trans {B : List Nat} {X : List Frame} {a b c : St} (h1 : Step B [] a b)
    (h2 : Step B X b c) (hw : ∀ f ∈ a.open_, f.id < a.nFrame) : Step B X a c := by
  simpa using h1.trans h2 hw

theorem Step.weaken {B : List Nat} {c : Nat} {X : List Frame} {s s' : St}
    (h : Step (c :: B) X s s') : Step B X s s' :=
  ⟨h.tr, fun b hb => h.keep b (List.mem_cons_of_mem _ hb)⟩

theorem Step.mono {B : List Nat} {X Y : List Frame} {s s' : St} (h : Step B X s s')
    (hs : ∀ f ∈ X, f ∈ Y) : Step B Y s s' := ⟨h.tr.mono hs, h.keep⟩

/-- a step that changes at most the manager of class `c`, which is not busy -/
theorem Step.of_tr {B : List Nat} {X : List Frame} {s s' : St} (t : Tr X s s') (c : Nat)
    (hc : c ∉ B) (hm : ∀ k, k ≠ c → s'.mgrs k = s.mgrs k) : Step B X s s' :=
  ⟨t, fun b hb => hm b (fun h => hc (h ▸ hb))⟩

/-! ### the model's primitive steps as atomic steps -/

section
variable (cfg : Cfg)

theorem ext_newExc (s : St) (k : Kind) : Ext s (s.newExc k).1 :=
  ⟨rfl, rfl, rfl, rfl, rfl, [], by simp, by simp [St.newExc]⟩

theorem ext_log {s : St} {ev : Ev} (h : ev.quiet = true) : Ext s (s.log ev) :=
  ⟨rfl, rfl, rfl, rfl, rfl, [ev], by simpa using h, by simp [St.log]⟩

theorem ext_ctxError (s : St) : Ext s s.ctxError.1 := ext_newExc s .ctx

theorem objExit_ne {s : St} {o : Nat} (h : (s.objs o).rc - 1 ≠ 0) :
    objExit cfg s o = (s.setObj o { s.obj o with rc := (s.obj o).rc - 1 }, none) := by
  unfold objExit
  simp [St.obj, h]

theorem objEnter_pos {s : St} {o : Nat} (h : 1 ≤ (s.objs o).rc) :
    objEnter cfg s o = (s.setObj o { s.obj o with rc := (s.obj o).rc + 1 }, none) := by
  unfold objEnter
  have : (s.obj o).rc + 1 > 1 := by simp [St.obj]; omega
  simp [this]

/-- `teardown`'s `_rc = 1; _cx.close()` up to the machine going down -/
theorem tdStart_ext {s : St} {c o : Nat} (hcls : (s.objs o).cls = c) :
    Ext (s.downed c o)
      (objExit cfg (((s.setObj o { s.obj o with rc := 1 })).setMgr c
        { (s.setObj o { s.obj o with rc := 1 }).mgr c with held := [] }) o).1 := by
  unfold objExit machineDown
  simp only [St.obj, St.setObj, St.setMgr, St.mgr, St.log, St.newExc, St.downed]
  simp only [Int.sub_self, beq_self_eq_true, if_true, ite_true]
  split
  · refine ⟨?_, rfl, ?_, rfl, rfl, [.created ⟨s.nExc, .fd⟩], by simp [Ev.quiet], by simp [hcls]⟩
    · funext k; by_cases hk : k = o <;> simp [hk, hcls]
    · funext k; by_cases hk : k = c <;> simp [hk]
  · refine ⟨?_, rfl, ?_, rfl, rfl, [], by simp, by simp [hcls]⟩
    · funext k; by_cases hk : k = o <;> simp [hk, hcls]
    · funext k; by_cases hk : k = c <;> simp [hk]

/-- a failing machine initialisation of a fresh object -/
theorem machineUp_new {s : St} {c : Nat} :
    let s1 := ({ s with nObj := s.nObj + 1 } : St).setObj s.nObj { cls := c, rc := 0, up := false }
    let r := machineUp cfg s1 s.nObj
    (r.2 = none → Ext ({ s with nObj := s.nObj + 1,
                                 objs := fun k => if k = s.nObj then { cls := c, rc := 1, up := true } else s.objs k,
                                 trace := .init c s.nObj :: s.trace }) r.1) ∧
    (∀ e, r.2 = some e → Ext (s.failedInit c e) r.1) := by
  intro s1 r
  simp only [r, s1]
  unfold machineUp
  simp only [St.obj, St.setObj, St.log, St.newExc, St.failedInit]
  split
  · refine ⟨by simp, ?_⟩
    intro e he
    simp at he
    subst he
    refine ⟨?_, rfl, rfl, rfl, rfl, [], by simp, by simp⟩
    funext k; by_cases hk : k = s.nObj <;> simp [hk]
  · refine ⟨?_, by simp⟩
    intro _
    refine ⟨?_, rfl, rfl, rfl, rfl, [], by simp, by simp⟩
    funext k; by_cases hk : k = s.nObj <;> simp [hk]

end

/-! ### specifications -/

def TdSpec (td : Nat → St → R) : Prop :=
  ∀ B c s, Inv B s → (∀ b ∈ B, c < b) → Inv B (td c s).1 ∧ Step B [] s (td c s).1

def RxSpec (rx : Frame → St → Option Exc → R) : Prop :=
  ∀ B f s e, Inv B s → (∀ b ∈ B, f.cls < b) → f ∈ s.open_ → (∀ k, f ∉ (s.mgrs k).held) →
    Inv B (rx f s e).1 ∧ Step B [f] s (rx f s e).1

/-- what a successful request returns -/
def FrameOk (c : Nat) (s s' : St) (f : Frame) : Prop :=
  f ∈ s'.open_ ∧ (∀ k, f ∉ (s'.mgrs k).held) ∧ f.cls = c ∧ s.nFrame ≤ f.id

def ReSpec (re : Bool → Nat → Bool → Bool → Option Bool → St → St × (Frame ⊕ Exc)) : Prop :=
  ∀ B dep c reset excl roe s, Inv B s → (∀ b ∈ B, c < b) →
    Inv B (re dep c reset excl roe s).1 ∧ Step B [] s (re dep c reset excl roe s).1 ∧
    ∀ f, (re dep c reset excl roe s).2 = .inl f → FrameOk c s (re dep c reset excl roe s).1 f

def DepSpec (re : Nat → Bool → St → St × (Frame ⊕ Exc)) : Prop :=
  ∀ B d x s, Inv B s → (∀ b ∈ B, d < b) →
    Inv B (re d x s).1 ∧ Step B [] s (re d x s).1 ∧ ∀ f, (re d x s).2 = .inl f → FrameOk d s (re d x s).1 f

def IniSpec (ini : Nat → St → R) : Prop :=
  ∀ B c s, Inv B s → (∀ b ∈ B, c < b) → Inv B (ini c s).1 ∧ Step B [] s (ini c s).1

theorem exitFrames_spec {rx : Frame → St → Option Exc → R} (hrx : RxSpec rx) :
    ∀ (L : List Frame) (B : List Nat) (s : St) (e : Option Exc), Inv B s → Pend L s →
      (∀ f ∈ L, ∀ b ∈ B, f.cls < b) →
      Inv B (exitFramesWith rx L s e).1 ∧ Step B L s (exitFramesWith rx L s e).1 := by
  intro L
  induction L with
  | nil =>
    intro B s e h _ _
    exact ⟨h, Step.refl B s⟩
  | cons f fs ih =>
    intro B s e h hp hb
    unfold exitFramesWith
    have h1 := hrx B f s e h (hb f (by simp)) (hp.isOpen f (by simp)) (hp.notHeld f (by simp))
    have hnd := List.nodup_cons.mp hp.nodup
    have hp' : Pend fs (rx f s e).1 :=
      hp.tail.tr h1.2.tr h.idLt (fun g hg hx => by
        simp at hx
        subst hx
        exact hnd.1 hg)
    have h2 := ih B (rx f s e).1 (rx f s e).2 h1.1 hp' (fun g hg => hb g (List.mem_cons_of_mem _ hg))
    exact ⟨h2.1, by simpa using h1.2.trans h2.2 h.idLt⟩

section
variable (cfg : Cfg)

theorem teardownF_spec {rx : Frame → St → Option Exc → R} (hrx : RxSpec rx) :
    TdSpec (teardownF cfg rx) := by
  intro B c s h hb
  have hcB : c ∉ B := fun hm => Nat.lt_irrefl _ (hb c hm)
  unfold teardownF
  cases hi : (s.mgr c).inst with
  | none =>
    simp only
    exact ⟨h.ext (ext_ctxError s), Step.of_ext B (ext_ctxError s)⟩
  | some o =>
    simp only
    have hi' : (s.mgrs c).inst = some o := hi
    obtain ⟨ho, hcls⟩ := h.instWf c o hi'
    -- the machine has gone down
    have hx := tdStart_ext cfg (s := s) (c := c) (o := o) hcls
    have hd : Inv (c :: B) (s.downed c o) := h.downed hi' hcB
    generalize hr1 : objExit cfg (((s.setObj o { s.obj o with rc := 1 })).setMgr c
        { (s.setObj o { s.obj o with rc := 1 }).mgr c with held := [] }) o = r1 at hx
    have h1 : Inv (c :: B) r1.1 := hd.ext hx
    have t1 : Step B [] s r1.1 :=
      (Step.of_tr (Tr.downed s c o) c hcB (fun k hk => by simp [St.downed, hk])).trans_nil
        (Step.of_ext B hx) h.idLt
    -- the frames the generator held
    have hheld : ((s.setObj o { s.obj o with rc := 1 }).mgr c).held = (s.mgrs c).held := rfl
    have hp : Pend (s.mgrs c).held.reverse r1.1 := by
      refine Pend.reverse ⟨h.heldNodup c, ?_, ?_⟩
      · intro f hf
        rw [hx.open_]
        exact (h.heldOpen c f hf).1
      · intro f hf k hk
        rw [hx.mgrs] at hk
        simp only [St.downed] at hk
        by_cases hkc : k = c
        · subst hkc; simp at hk
        · simp [hkc] at hk
          exact hkc (h.heldDisj k c f hk hf)
    have hlt : ∀ f ∈ (s.mgrs c).held.reverse, ∀ b ∈ c :: B, f.cls < b := by
      intro f hf b hbm
      have hfc := (h.heldOpen c f (List.mem_reverse.mp hf)).2
      rcases List.mem_cons.mp hbm with rfl | hbm
      · exact hfc
      · exact Nat.lt_trans hfc (hb b hbm)
    have h2 := exitFrames_spec hrx (s.mgrs c).held.reverse (c :: B) r1.1 r1.2 h1 hp hlt
    rw [hheld]
    generalize exitFramesWith rx (s.mgrs c).held.reverse r1.1 r1.2 = r2 at h2
    refine ⟨h2.1.cleared, ?_⟩
    have t2 : Step B (s.mgrs c).held.reverse s r2.1 := t1.nil_trans h2.2.weaken h.idLt
    have t3 : Step B (s.mgrs c).held.reverse s (r2.1.cleared c) :=
      t2.trans_nil (Step.of_tr (Tr.cleared _ _) c hcB (fun k hk => by simp [St.cleared, hk])) h.idLt
    exact ⟨⟨t3.tr.nFrame_le, fun f hf hn => Or.inr (by
      rcases t3.tr.gone f hf hn with hm | hk
      · exact ⟨c, List.mem_reverse.mp hm⟩
      · exact hk), t3.tr.newHeld, t3.tr.nObj_le⟩, t3.keep⟩

end

end Ctx
