import TbotVerif.Props.C06SLoop
import TbotVerif.Props.ChanLemmas
/-! `Spec.C06S` holds of the model on every well-formed case: one `read` (`read_ok`), one `write`
    (`write_ok`), sequences (`runOps_ok`, `spec_holds`). -/
namespace C06S
open SubIO

/-- every scripted piece is non-empty -/
def NE (pend : List Piece) : Prop := ∀ p ∈ pend, p.data ≠ []

theorem dropBytes_zero (pend : List Piece) (h : NE pend) : dropBytes 0 pend = pend := by
  cases pend with
  | nil => rfl
  | cons p ps =>
    have : 0 < p.data.length := List.length_pos_iff.mpr (h p (by simp))
    simp [dropBytes, this]

theorem takeHead_drop (n : Nat) (p : Piece) (ps : List Piece) (h : NE (p :: ps)) :
    (Chan.takeHead n p ps).2 = dropBytes (Chan.takeHead n p ps).1.length (p :: ps) := by
  have hp : 0 < p.data.length := List.length_pos_iff.mpr (h p (by simp))
  have hps : NE ps := fun q hq => h q (List.mem_cons_of_mem _ hq)
  unfold Chan.takeHead
  split
  · rename_i hle
    simp only [dropBytes, Nat.lt_irrefl, if_false, Nat.sub_self]
    exact (dropBytes_zero ps hps).symm
  · rename_i hlt
    have hlt : n < p.data.length := Nat.lt_of_not_le hlt
    simp only [List.length_take, Nat.min_eq_left (Nat.le_of_lt hlt), dropBytes, hlt, if_true]
    split
    · rename_i h0; subst h0; simp
    · rfl

theorem takeHead_NE (n : Nat) (p : Piece) (ps : List Piece) (h : NE (p :: ps)) : NE (Chan.takeHead n p ps).2 :=
  (Chan.takeHead_spec n p ps).2.2.2 h

theorem takeHead_dataOk (n : Nat) (p : Piece) (ps : List Piece) (t : Nat) (hp : p.tick ≤ t) (h : NE (p :: ps)) :
    dataOk (Chan.takeHead n p ps).1 (p :: ps) t n = true := by
  have hs := Chan.takeHead_spec n p ps
  have hne : p.data ≠ [] := h p (by simp)
  have hpre : (Chan.takeHead n p ps).1 <+: avail (p :: ps) t := by
    have h1 : (Chan.takeHead n p ps).1 <+: p.data := by
      unfold Chan.takeHead
      split
      · exact List.prefix_refl _
      · exact List.take_prefix _ _
    have h2 : p.data <+: avail (p :: ps) t := by
      simp only [avail, List.takeWhile_cons, hp, decide_true, if_true, List.map_cons, List.flatten_cons]
      exact List.prefix_append _ _
    exact List.IsPrefix.trans h1 h2
  simp only [dataOk, Bool.and_eq_true, Bool.or_eq_true, decide_eq_true_eq, Bool.not_eq_true', List.isPrefixOf_iff_prefix]
  refine ⟨⟨hs.2.1, ?_⟩, hpre⟩
  by_cases hn : n = 0
  · exact Or.inl hn
  · exact Or.inr (by simpa using hs.2.2.1 hne (Nat.pos_of_ne_zero hn))


theorem osRead_ready (n : Nat) (s : SubIO.St) (hr : ready s.pend s.now = true) :
    ∃ p ps, s.pend = p :: ps ∧ p.tick ≤ s.now
      ∧ osRead n s = (.data (Chan.takeHead n p ps).1, { s with pend := (Chan.takeHead n p ps).2 }) := by
  cases hs : s.pend with
  | nil => rw [hs] at hr; simp [ready] at hr
  | cons p ps =>
    rw [hs] at hr
    simp only [ready, decide_eq_true_eq] at hr
    exact ⟨p, ps, rfl, hr, by simp [osRead, hs, hr]⟩

theorem osRead_not_ready (n : Nat) (s : SubIO.St) (hr : ready s.pend s.now = false) : osRead n s = (.closed, s) := by
  cases hs : s.pend with
  | nil => simp [osRead, hs]
  | cons p ps =>
    rw [hs] at hr
    simp only [ready, decide_eq_false_iff_not] at hr
    simp [osRead, hs, hr]

/-- one `read` honours the contract and hands the state on as the Spec reconstructs it -/
theorem read_ok (c : SubIO.Case) (hm : 0 < c.mrw) (n : Nat) (T : Option Nat) (s : SubIO.St) (hne : NE s.pend) :
    readOk c s.now s.pend n T ⟨(SubIO.read c.mrw c.gone n T s).1, (SubIO.read c.mrw c.gone n T s).2.1.now,
        (SubIO.read c.mrw c.gone n T s).2.2⟩ = true
    ∧ (SubIO.read c.mrw c.gone n T s).2.1.pend
        = nextPend s.pend ⟨(SubIO.read c.mrw c.gone n T s).1, (SubIO.read c.mrw c.gone n T s).2.1.now, (SubIO.read c.mrw c.gone n T s).2.2⟩
    ∧ (SubIO.read c.mrw c.gone n T s).2.1.accept = s.accept
    ∧ NE (SubIO.read c.mrw c.gone n T s).2.1.pend := by
  unfold SubIO.read
  by_cases hc : closedAt c.gone s.now = true
  · -- the subprocess was gone on entry: straight to `os.read`
    simp only [hc, if_true]
    cases hr : ready s.pend s.now with
    | true =>
      obtain ⟨p, ps, hs, hp, ho⟩ := osRead_ready n s hr
      rw [ho]
      have hne' : NE (p :: ps) := hs ▸ hne
      refine ⟨?_, ?_, rfl, takeHead_NE n p ps hne'⟩
      · simp only [readOk, hc, if_true, List.isEmpty_nil, decide_true, Bool.true_and, hr]
        rw [hs]; exact takeHead_dataOk n p ps s.now hp hne'
      · simp only [nextPend]; rw [hs]; exact takeHead_drop n p ps hne'
    | false =>
      rw [osRead_not_ready n s hr]
      refine ⟨?_, rfl, rfl, hne⟩
      simp [readOk, hc, hr]
  · have hc' : closedAt c.gone s.now = false := by simpa using hc
    simp only [hc', Bool.false_eq_true, if_false]
    obtain ⟨ext, hsel, hsl, hsp, hne2, hle, hr, ht, hcl, hh⟩ :=
      loop_post c.mrw (T.map (s.now + ·)) c.gone s.pend s.now [] hm hc'
        (by intro d hd; cases T with
            | none => simp at hd
            | some T' => simp only [Option.map_some, Option.some.injEq] at hd; omega)
    generalize loop c.mrw (T.map (s.now + ·)) c.gone s.pend s.now [] = L at *
    obtain ⟨o, t1, sel⟩ := L
    simp only [List.nil_append] at hsel hsp hle hr ht hcl hh ⊢
    subst hsel
    cases o with
    | ready =>
      obtain ⟨ha, hb, hd⟩ := hr rfl
      obtain ⟨p, ps, hs, hp, ho⟩ := osRead_ready n { s with now := t1 } ha
      simp only at hs hp ho ⊢
      rw [ho]
      have hne' : NE (p :: ps) := hs ▸ hne
      refine ⟨?_, ?_, rfl, takeHead_NE n p ps hne'⟩
      · simp only [readOk, hc', Bool.false_eq_true, if_false, hsl, hsp, Bool.true_and, ha, hb, decide_true]
        rw [hs] at hb ⊢
        simp only [takeHead_dataOk n p ps t1 hp hne', Bool.true_and]
        cases hT : T.map (s.now + ·) with
        | none => rfl
        | some dd => simpa using hd dd hT
      · simp only [nextPend]; rw [hs]; exact takeHead_drop n p ps hne'
    | timeout =>
      obtain ⟨d, hd, htd, hrd⟩ := ht rfl
      refine ⟨?_, rfl, rfl, hne⟩
      rw [hd] at hsl
      subst htd
      simp only [readOk, hc', Bool.false_eq_true, if_false, hd, hsl, hsp, Bool.true_and, decide_true, hrd,
        Bool.not_false]
    | closed =>
      obtain ⟨ha, hb, ⟨g, hg, hlt⟩, hd⟩ := hcl rfl
      refine ⟨?_, rfl, rfl, hne⟩
      have hdl : (match T.map (s.now + ·) with | none => true | some dd => decide (t1 ≤ dd)) = true := by
        cases hT : T.map (s.now + ·) with
        | none => rfl
        | some dd => simpa using hd dd hT
      simp only [readOk, hc', Bool.false_eq_true, if_false, hsl, hsp, Bool.true_and, ha, hb, Bool.not_false]
      rw [hg]
      simp only [Bool.and_eq_true, decide_eq_true_eq]
      exact ⟨hlt, hdl⟩
    | hang =>
      obtain ⟨ha, hb, hg, ht1⟩ := hh rfl
      refine ⟨?_, rfl, rfl, hne⟩
      have hTn : T = none := by cases T with | none => rfl | some _ => simp at ha
      subst hTn
      subst ht1
      simp only [Option.map_none] at hsl
      rw [hg] at hc'
      simp [readOk, hc', hsl, hsp, hb, hg]


/-- one `write` honours the guard and hands the state on as the Spec reconstructs it -/
theorem write_ok (c : SubIO.Case) (b : Bytes) (s : SubIO.St) :
    writeOk c s.now s.accept b ⟨(SubIO.write c.wguard c.gone c.wready b s).1,
        (SubIO.write c.wguard c.gone c.wready b s).2.1.now, (SubIO.write c.wguard c.gone c.wready b s).2.2⟩ = true
    ∧ (SubIO.write c.wguard c.gone c.wready b s).2.1.accept
        = nextAccept s.accept ⟨(SubIO.write c.wguard c.gone c.wready b s).1,
            (SubIO.write c.wguard c.gone c.wready b s).2.1.now, (SubIO.write c.wguard c.gone c.wready b s).2.2⟩
    ∧ (SubIO.write c.wguard c.gone c.wready b s).2.1.pend = s.pend
    ∧ (SubIO.write c.wguard c.gone c.wready b s).1 ≠ .hang := by
  unfold SubIO.write
  by_cases hc : closedAt c.gone s.now = true
  · simp [hc, writeOk, nextAccept]
  · have hc' : closedAt c.gone s.now = false := by simpa using hc
    simp only [hc', Bool.false_eq_true, if_false]
    cases hw : c.wready with
    | none => simp [writeOk, hc', hw, nextAccept]
    | some w =>
      simp only
      by_cases h1 : w ≤ s.now
      · simp only [h1, if_true]
        by_cases hk : accepted s.accept b.length = 0
        · simp only [hk, if_true]
          refine ⟨?_, by simp [nextAccept], by simp, by simp⟩
          simp only [writeOk, hc', Bool.false_eq_true, if_false, hw, hk, decide_true, Bool.and_true,
            Bool.true_and, Bool.and_eq_true, decide_eq_true_eq]
          omega
        · simp only [hk, if_false]
          refine ⟨?_, by simp [nextAccept], by simp, by simp⟩
          simp only [writeOk, hc', Bool.false_eq_true, if_false, hw, decide_true, Bool.and_true,
            Bool.true_and, Bool.and_eq_true, decide_eq_true_eq]
          omega
      · simp only [h1, if_false]
        by_cases h2 : w ≤ s.now + c.wguard
        · simp only [h2, if_true]
          by_cases hk : accepted s.accept b.length = 0
          · simp only [hk, if_true]
            refine ⟨?_, by simp [nextAccept], by simp, by simp⟩
            simp only [writeOk, hc', Bool.false_eq_true, if_false, hw, hk, decide_true, Bool.and_true,
              Bool.true_and, Bool.and_eq_true, decide_eq_true_eq]
            omega
          · simp only [hk, if_false]
            refine ⟨?_, by simp [nextAccept], by simp, by simp⟩
            simp only [writeOk, hc', Bool.false_eq_true, if_false, hw, decide_true, Bool.and_true,
              Bool.true_and, Bool.and_eq_true, decide_eq_true_eq]
            omega
        · simp only [h2, if_false]
          refine ⟨?_, by simp [nextAccept], by simp, by simp⟩
          simp only [writeOk, hc', Bool.false_eq_true, if_false, hw, decide_true,
            Bool.true_and, decide_eq_true_eq]
          omega


theorem runOps_ok (c : SubIO.Case) (hm : 0 < c.mrw) (ops : List SubIO.Op) (s : SubIO.St) (hne : NE s.pend) :
    seqOk c ops (runOps c ops s) s.now s.pend s.accept = true := by
  induction ops generalizing s with
  | nil => simp [runOps, seqOk]
  | cons op ops ih =>
    cases op with
    | read n T gap =>
      obtain ⟨h1, h2, h3, h4⟩ := read_ok c hm n T { s with now := s.now + gap } hne
      simp only at h1 h2 h3 h4
      unfold runOps
      simp only [runOp, SubIO.Op.gap]
      by_cases hh : (SubIO.read c.mrw c.gone n T { s with now := s.now + gap }).1 = .hang
      · simp only [hh, if_true, seqOk]
        rw [hh] at h1
        simp [h1]
      · simp only [hh, if_false, seqOk, h1, Bool.true_and]
        have := ih (SubIO.read c.mrw c.gone n T { s with now := s.now + gap }).2.1 h4
        rw [h2, h3] at this
        exact this
    | write b gap =>
      obtain ⟨h1, h2, h3, h4⟩ := write_ok c b { s with now := s.now + gap }
      simp only at h1 h2 h3 h4
      unfold runOps
      simp only [runOp, SubIO.Op.gap]
      simp only [h4, if_false, seqOk, h1, Bool.true_and]
      have := ih (SubIO.write c.wguard c.gone c.wready b { s with now := s.now + gap }).2.1 (by rw [h3]; exact hne)
      rw [h2, h3] at this
      exact this

theorem wf_NE (c : SubIO.Case) (h : c.wf = true) : 0 < c.mrw ∧ NE c.script := by
  simp only [SubIO.Case.wf, Bool.and_eq_true, decide_eq_true_eq, List.all_eq_true, Bool.not_eq_true',
    List.isEmpty_eq_false_iff] at h
  exact ⟨h.1, fun p hp => h.2 p hp⟩

/-- **C06S**: on every well-formed case (any script, any exit time, any sequence of calls, any
    slice length > 0) the model of `SubprocessChannelIO` honours the `ChannelIO` contract -/
theorem spec_holds (c : SubIO.Case) (h : c.wf = true) : Spec.C06S c (SubIO.run c) = true := by
  obtain ⟨hm, hne⟩ := wf_NE c h
  exact runOps_ok c hm c.ops ⟨0, c.script, c.accept⟩ hne

end C06S
