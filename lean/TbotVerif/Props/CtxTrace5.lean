import TbotVerif.Props.CtxTrace4
set_option linter.unusedSimpArgs false
set_option linter.unusedVariables false
/-! I5: after the outermost `with ctx` has been left with no program request open, nothing is up. -/
namespace Ctx

/-- the log's `with ctx` depth and number of open program requests match the state / the number `n`
    of program requests on the stack, and I5 has held so far -/
structure L5 (n : Nat) (s : St) : Prop where
  depth : depth s.trace = s.openCtx
  opensP : opensP s.trace = n
  good : always condLeave s.trace = true

theorem condLeave_other {ev : Ev} (h : ev ≠ .ctxLeave) (t : List Ev) : condLeave t ev = true := by
  cases ev <;> simp_all [condLeave]

theorem neutral_ne_leave {ev : Ev} (h : ev.neutral = true) : ev ≠ .ctxLeave := by
  intro heq; subst heq; simp [Ev.neutral] at h

theorem always_leave_tgrow {t t' : List Ev} (h : TGrow t t') :
    always condLeave t' = always condLeave t := by
  obtain ⟨evs, rfl, q⟩ := h
  induction evs with
  | nil => rfl
  | cons e es ih =>
    rw [List.cons_append, always_cons, condLeave_other (neutral_ne_leave (q e (by simp))),
      ih (fun e he => q e (by simp [he]))]
    simp

theorem L5.tgrow {n : Nat} {s s' : St} (h : L5 n s) (g : TGrow s.trace s'.trace)
    (ho : s'.openCtx = s.openCtx) : L5 n s' :=
  ⟨by rw [g.depth, ho]; exact h.depth, by rw [g.opensP]; exact h.opensP,
   by rw [always_leave_tgrow g]; exact h.good⟩

/-- no request of the program is open, the context is not entered, and yet nothing is alive -/
def C5 (Q : List Frame) (s : St) : Prop := s.openCtx = 0 → Q = [] → Quiet s

section
variable (cfg : Cfg)

theorem ctxExit_G (hwf : cfg.depsBelow) {P : Nat → Nat} {s : St} (h : Inv [] s) (h3 : Inv3 P s) :
    Inv3 P (ctxExit cfg s).1 ∧ TGrow s.trace (ctxExit cfg s).1.trace := by
  unfold ctxExit
  simp only
  split
  · have hl := tdLoop_G (ops_spec cfg hwf cfg.n).1 (ops_G cfg hwf cfg.n).1
      (fun s c => s.alive c && s.keepAlive) P s.order.reverse s none h h3
    exact ⟨hl.1.plainExt rfl [] rfl (by simp), hl.2.1⟩
  · exact ⟨h3.plainExt rfl [] rfl (by simp), TGrow.refl _⟩

theorem reconfExit_G (hwf : cfg.depsBelow) {P : Nat → Nat} (ka0 roe0 : Bool) (ka : Option Bool)
    {s : St} (h : Inv [] s) (h3 : Inv3 P s) :
    Inv3 P (reconfExit cfg ka0 roe0 ka s).1 ∧ TGrow s.trace (reconfExit cfg ka0 roe0 ka s).1.trace := by
  unfold reconfExit
  simp only
  have hx : Ext s { s with keepAlive := ka0, roeDefault := roe0 } :=
    ⟨rfl, rfl, rfl, rfl, rfl, [], by simp, by simp⟩
  have h3' : Inv3 P ({ s with keepAlive := ka0, roeDefault := roe0 } : St) := h3.plainExt rfl [] rfl (by simp)
  split
  · have hl := tdLoop_G (ops_spec cfg hwf cfg.n).1 (ops_G cfg hwf cfg.n).1
      (fun s c => s.alive c && (s.mgr c).users == 0) P
      ({ s with keepAlive := ka0, roeDefault := roe0 } : St).order.reverse _ none (h.ext hx) h3'
    exact ⟨hl.1, hl.2.1⟩
  · exact ⟨h3', TGrow.refl _⟩

/-- `C5` is preserved by every statement (by `exec_quiet`) -/
theorem exec_C5 (hwf : cfg.depsBelow) (p : Stmt) (s : St) (D : Nat → Prop) (Q : List Frame)
    (hcb : p.classesBelow cfg.n = true) (h : Inv [] s) (hI : Inv2 cfg.n D Fa Q s) (hc : C5 Q s) :
    C5 Q (exec cfg p s).1 := by
  intro ho hQ
  have he := (exec_2 cfg hwf p s D Q hcb h hI).2
  have ho' : s.openCtx = 0 := by rw [← he.openCtx]; exact ho
  have hq := hc ho' hQ
  subst hQ
  have hI' : Inv2 cfg.n Fa Fa [] s := ⟨hI.dh, fun _ c hi _ => absurd (hq c) hi, hI.ord, hI.bnd⟩
  exact exec_quiet cfg hwf p s hcb h hI' ho' hq

theorem neutral_leaves (e : Exc) : (Ev.leaves e).neutral = true := rfl

theorem logLeave_tgrow (r : R) : TGrow r.1.trace (logLeave r).1.trace ∧
    (logLeave r).1.openCtx = r.1.openCtx ∧ (logLeave r).1.mgrs = r.1.mgrs := by
  unfold logLeave
  cases r.2 with
  | some e => exact ⟨(TGrow.refl _).cons rfl, rfl, rfl⟩
  | none => exact ⟨TGrow.refl _, rfl, rfl⟩

mutual
theorem exec_5 (hwf : cfg.depsBelow) : ∀ (p : Stmt) (s : St) (D : Nat → Prop) (Q : List Frame),
    p.classesBelow cfg.n = true → Inv [] s → Inv2 cfg.n D Fa Q s → Inv3 (fun _ => 0) s → C5 Q s →
    L5 Q.length s → Inv3 (fun _ => 0) (exec cfg p s).1 ∧ L5 Q.length (exec cfg p s).1
  | .req c reset excl roe body, s, D, Q, hcb, h, hI, h3, hc5, hl => by
    simp only [Stmt.classesBelow, Bool.and_eq_true, decide_eq_true_eq] at hcb
    rw [exec]
    have hre := (ops_spec cfg hwf cfg.n).2.2 [] false c reset excl roe s h (by simp)
    have qre := (ops_2 cfg hwf cfg.n).2.2 cfg.n D Fa Q [] false c reset excl roe s hcb.1 hcb.1 h (by simp) hI
    have gre := (ops_G cfg hwf cfg.n).2.2 (fun _ => 0) [] false c reset excl roe s h (by simp) h3
    generalize (ops cfg cfg.n).reqEnter false c reset excl roe s = r at hre qre gre ⊢
    obtain ⟨s1, res⟩ := r
    cases res with
    | inr e =>
      simp only
      have hg := gre.2.2.2.2 e rfl
      simp only at hg
      refine ⟨gre.1.plainExt rfl [.leaves e] rfl (by simp [Ev.plain]), ?_⟩
      exact (hl.tgrow hg qre.1.openCtx).tgrow ((TGrow.refl _).cons rfl) rfl
    | inl f =>
      simp only
      obtain ⟨hfo, hfh, hfc, _⟩ := hre.2.2 f rfl
      obtain ⟨_, t1, ht1, htr⟩ := gre.2.2.2.1 f rfl
      simp only at hfo hfh hre qre gre htr
      -- one more program request is open
      have hl1 : L5 (f :: Q).length s1 := by
        refine ⟨?_, ?_, ?_⟩
        · rw [htr]
          show depth t1 = s1.openCtx
          rw [ht1.depth, qre.1.openCtx]; exact hl.depth
        · rw [htr]
          show opensP t1 + 1 = Q.length + 1
          rw [ht1.opensP, hl.opensP]
        · rw [htr, always_cons, condLeave_other (by simp), always_leave_tgrow ht1]
          simpa using hl.good
      have hb := execBlock_inv cfg hwf body s1 hre.1
      have qb := execBlock_2 cfg hwf body s1 D (f :: Q) hcb.2 hre.1 (qre.2.1 f rfl)
      have lb := execBlock_5 hwf body s1 D (f :: Q) hcb.2 hre.1 (qre.2.1 f rfl) gre.1
        (fun _ hq => by simp at hq) hl1
      generalize execBlock cfg body s1 = rb at hb qb lb ⊢
      have hp : Pend [f] rb.1 := (Pend.single hfo hfh).tr hb.2.tr hre.1.idLt (by simp)
      -- leaving the request: one level above 0, so the `released` event is logged
      have hn1 : ∃ k, cfg.n = k + 1 := ⟨cfg.n - 1, by omega⟩
      obtain ⟨k, hk⟩ := hn1
      have qrx := (ops_2 cfg hwf cfg.n).2.1 cfg.n D Fa Q [] f rb.1 rb.2 (by omega) (by omega) hb.1
        (by simp) (hp.isOpen f (by simp)) (hp.notHeld f (by simp)) qb.1
      have grx : RxG1 (ops cfg cfg.n).reqExit := by
        rw [hk]
        obtain ⟨_, hSx, _⟩ := ops_spec cfg hwf k
        obtain ⟨_, hGx, _⟩ := ops_G cfg hwf k
        exact reqExitF_G1 cfg (teardownF_spec cfg hSx) (teardownF_G cfg hSx hGx)
          (fun c s => teardownF_clears cfg _ c s)
      have grx' := grx (fun _ => 0) [] f rb.1 rb.2 hb.1 (by simp) (hp.isOpen f (by simp))
        (hp.notHeld f (by simp)) lb.1
      generalize (ops cfg cfg.n).reqExit f rb.1 rb.2 = r2 at qrx grx' ⊢
      obtain ⟨t2, ht2, htr2⟩ := grx'.2.1
      have hfd : f.dep = false := (gre.2.2.2.1 f rfl).1
      obtain ⟨hg, ho, hm⟩ := logLeave_tgrow r2
      obtain ⟨hm', hk', evs, ht, hpl⟩ := logLeave_plain r2
      refine ⟨grx'.1.plainExt hm' evs ht hpl, ?_⟩
      have hl2 : L5 Q.length r2.1 := by
        refine ⟨?_, ?_, ?_⟩
        · rw [htr2]
          show depth t2 = r2.1.openCtx
          rw [ht2.depth, qrx.2.1.openCtx]; exact lb.2.depth
        · rw [htr2, hfd]
          show opensP t2 - 1 = Q.length
          rw [ht2.opensP, lb.2.opensP]
          simp
        · rw [htr2, always_cons, condLeave_other (by simp), always_leave_tgrow ht2]
          simpa using lb.2.good
      exact hl2.tgrow hg ho
  | .ctx body, s, D, Q, hcb, h, hI, h3, hc5, hl => by
    have hcb' := hcb
    simp only [Stmt.classesBelow] at hcb
    -- if this is the outermost `with ctx` and no request is open, nothing is alive afterwards
    have hquiet : s.openCtx = 0 → Q = [] → Quiet (exec cfg (.ctx body) s).1 := by
      intro ho hq
      exact exec_C5 cfg hwf (.ctx body) s D Q hcb' h hI hc5
        (by rw [(exec_2 cfg hwf (.ctx body) s D Q hcb' h hI).2.openCtx]; exact ho) hq
    rw [exec] at hquiet ⊢
    have hx1 : Ext s ({ (s.log .ctxEnter) with openCtx := (s.log .ctxEnter).openCtx + 1 } : St) :=
      ⟨rfl, rfl, rfl, rfl, rfl, [.ctxEnter], by simp [Ev.quiet], by simp [St.log]⟩
    have hI1 : Inv2 cfg.n D Fa Q ({ (s.log .ctxEnter) with openCtx := (s.log .ctxEnter).openCtx + 1 } : St) :=
      hI.same ⟨rfl, rfl, rfl, rfl⟩
    have h31 : Inv3 (fun _ => 0) ({ (s.log .ctxEnter) with openCtx := (s.log .ctxEnter).openCtx + 1 } : St) :=
      h3.plainExt rfl [.ctxEnter] rfl (by simp [Ev.plain])
    have hl1 : L5 Q.length ({ (s.log .ctxEnter) with openCtx := (s.log .ctxEnter).openCtx + 1 } : St) := by
      refine ⟨?_, ?_, ?_⟩
      · show depth (.ctxEnter :: s.trace) = s.openCtx + 1
        simp [depth, hl.depth]
      · show opensP (.ctxEnter :: s.trace) = Q.length
        simp [opensP, hl.opensP]
      · show always condLeave (.ctxEnter :: s.trace) = true
        simp [always_cons, condLeave, hl.good]
    have hb := execBlock_inv cfg hwf body _ (h.ext hx1)
    have qb := execBlock_2 cfg hwf body _ D Q hcb (h.ext hx1) hI1
    have lb := execBlock_5 hwf body _ D Q hcb (h.ext hx1) hI1 h31
      (fun ho _ => by simp [St.log] at ho) hl1
    generalize execBlock cfg body ({ (s.log .ctxEnter) with openCtx := (s.log .ctxEnter).openCtx + 1 } : St) = rb at hb qb lb hquiet ⊢
    have hx2 : Ext rb.1 (rb.1.log .ctxBody) := ext_log (by simp [Ev.quiet])
    have h32 : Inv3 (fun _ => 0) (rb.1.log .ctxBody) := lb.1.plainExt rfl [.ctxBody] rfl (by simp [Ev.plain])
    have hc1 := ctxExit_spec cfg hwf (hb.1.ext hx2)
    have hc2 := ctxExit_2 cfg hwf (hb.1.ext hx2) (qb.1.same (same2_log rb.1 .ctxBody).1)
    have hc3 := ctxExit_G cfg hwf (hb.1.ext hx2) h32
    generalize ctxExit cfg (rb.1.log .ctxBody) = r2 at hc1 hc2 hc3 hquiet ⊢
    have hob : rb.1.openCtx = s.openCtx + 1 := qb.2.openCtx
    have hgb : TGrow rb.1.trace r2.1.trace :=
      ((TGrow.refl rb.1.trace).cons (ev := .ctxBody) rfl).trans hc3.2
    have hd2 : depth r2.1.trace = s.openCtx + 1 := by rw [hgb.depth, lb.2.depth, hob]
    have hp2 : opensP r2.1.trace = Q.length := by rw [hgb.opensP, lb.2.opensP]
    have hg2 : always condLeave r2.1.trace = true := by rw [always_leave_tgrow hgb]; exact lb.2.good
    obtain ⟨hg, ho, hm⟩ := logLeave_tgrow (r2.1.log .ctxLeave, later rb.2 r2.2)
    obtain ⟨hm', hk', evs, ht, hpl⟩ := logLeave_plain (r2.1.log .ctxLeave, later rb.2 r2.2)
    have h33 : Inv3 (fun _ => 0) (r2.1.log .ctxLeave) := hc3.1.plainExt rfl [.ctxLeave] rfl (by simp [Ev.plain])
    refine ⟨h33.plainExt hm' evs ht hpl, ?_⟩
    have hl3 : L5 Q.length (r2.1.log .ctxLeave) := by
      refine ⟨?_, ?_, ?_⟩
      · show depth (.ctxLeave :: r2.1.trace) = r2.1.openCtx
        have : r2.1.openCtx = (rb.1.log .ctxBody).openCtx - 1 := hc2.2.2.2.1
        simp only [depth, hd2, this, St.log, hob]
      · show opensP (.ctxLeave :: r2.1.trace) = Q.length
        simp [opensP, hp2]
      · show always condLeave (.ctxLeave :: r2.1.trace) = true
        simp only [always_cons, hg2, Bool.and_true, condLeave]
        by_cases hcond : (depth r2.1.trace == 1 && opensP r2.1.trace == 0) = true
        · simp only [hcond, Bool.not_true, Bool.false_or]
          simp only [Bool.and_eq_true, beq_iff_eq] at hcond
          have ho0 : s.openCtx = 0 := by omega
          have hQ : Q = [] := by
            have : Q.length = 0 := by omega
            exact List.eq_nil_of_length_eq_zero this
          have hqf := hquiet ho0 hQ
          -- the final state has the managers of the state after `__exit__`
          have hq2 : Quiet r2.1 := by
            intro c'
            have := hqf c'
            rw [hm] at this
            exact this
          rw [List.isEmpty_iff]
          rw [List.eq_nil_iff_forall_not_mem]
          intro ⟨c', o⟩ hmem
          obtain ⟨_, _, hu⟩ := (hc1.1.upsIff c' o).mp hmem
          have := (hc1.1.upInst o hu).1
          rw [hq2 _] at this
          cases this
        · simp [hcond]
    exact hl3.tgrow hg ho
  | .reconf ka roe body, s, D, Q, hcb, h, hI, h3, hc5, hl => by
    have hcb' := hcb
    simp only [Stmt.classesBelow] at hcb
    rw [exec]
    have hx1 : Ext s ({ s with keepAlive := ka.getD s.keepAlive, roeDefault := roe.getD s.roeDefault } : St) :=
      ⟨rfl, rfl, rfl, rfl, rfl, [], by simp, by simp⟩
    have hI1 : Inv2 cfg.n (fun c => D c ∨ dang ({ s with keepAlive := ka.getD s.keepAlive, roeDefault := roe.getD s.roeDefault } : St) c) Fa Q
        ({ s with keepAlive := ka.getD s.keepAlive, roeDefault := roe.getD s.roeDefault } : St) :=
      ⟨hI.dh, fun _ c hi hu => Or.inl (Or.inr ⟨hi, hu⟩), hI.ord, hI.bnd⟩
    have h31 : Inv3 (fun _ => 0) ({ s with keepAlive := ka.getD s.keepAlive, roeDefault := roe.getD s.roeDefault } : St) :=
      h3.plainExt rfl [] rfl (by simp)
    have hl1 : L5 Q.length ({ s with keepAlive := ka.getD s.keepAlive, roeDefault := roe.getD s.roeDefault } : St) :=
      ⟨hl.depth, hl.opensP, hl.good⟩
    have hb := execBlock_inv cfg hwf body _ (h.ext hx1)
    have qb := execBlock_2 cfg hwf body _ _ Q hcb (h.ext hx1) hI1
    have lb := execBlock_5 hwf body _ _ Q hcb (h.ext hx1) hI1 h31 (fun ho hq => hc5 ho hq) hl1
    generalize execBlock cfg body ({ s with keepAlive := ka.getD s.keepAlive, roeDefault := roe.getD s.roeDefault } : St) = rb at hb qb lb ⊢
    have hc2 := reconfExit_2 cfg hwf (D := fun _ => True) s.keepAlive s.roeDefault ka hb.1 qb.1
      (fun _ _ _ _ _ => trivial)
    have hc3 := reconfExit_G cfg hwf s.keepAlive s.roeDefault ka hb.1 lb.1
    generalize reconfExit cfg s.keepAlive s.roeDefault ka rb.1 = r2 at hc2 hc3 ⊢
    obtain ⟨hg, ho, hm⟩ := logLeave_tgrow (r2.1, later rb.2 r2.2)
    obtain ⟨hm', hk', evs, ht, hpl⟩ := logLeave_plain (r2.1, later rb.2 r2.2)
    refine ⟨hc3.1.plainExt hm' evs ht hpl, ?_⟩
    have hl2 : L5 Q.length r2.1 := lb.2.tgrow hc3.2 hc2.2.2.2.1
    exact hl2.tgrow hg ho
  | .try_ body, s, D, Q, hcb, h, hI, h3, hc5, hl => by
    simp only [Stmt.classesBelow] at hcb
    rw [exec]
    have lb := execBlock_5 hwf body s D Q hcb h hI h3 hc5 hl
    generalize execBlock cfg body s = rb at lb ⊢
    cases he : rb.2 with
    | some e =>
      exact ⟨lb.1.plainExt rfl [.caught e] rfl (by simp [Ev.plain]),
        lb.2.tgrow ((TGrow.refl _).cons rfl) rfl⟩
    | none => exact lb
  | .raise, s, D, Q, _, h, hI, h3, hc5, hl => by
    rw [exec]
    exact ⟨h3.plainExt rfl [.created (s.newExc .body).2] rfl (by simp [Ev.plain]),
      hl.tgrow ((TGrow.refl _).cons rfl) rfl⟩
  | .skip, s, D, Q, _, h, hI, h3, hc5, hl => by
    rw [exec]
    exact ⟨h3.plainExt rfl [.created (s.newExc .skip).2] rfl (by simp [Ev.plain]),
      hl.tgrow ((TGrow.refl _).cons rfl) rfl⟩
  | .td c, s, D, Q, hcb, h, hI, h3, hc5, hl => by
    simp only [Stmt.classesBelow, decide_eq_true_eq] at hcb
    rw [exec]
    split
    · have qtd := (ops_2 cfg hwf cfg.n).1 cfg.n D Fa Q [] c s hcb hcb h (by simp) hI
      have gtd := (ops_G cfg hwf cfg.n).1 (fun _ => 0) [] c s h (by simp) h3
      generalize (ops cfg cfg.n).teardown c s = r at qtd gtd ⊢
      simp only
      cases he : r.2 with
      | some e =>
        exact ⟨gtd.1.plainExt rfl [.leaves e] rfl (by simp [Ev.plain]),
          (hl.tgrow gtd.2.1 qtd.2.1.openCtx).tgrow ((TGrow.refl _).cons rfl) rfl⟩
      | none =>
        exact ⟨gtd.1.plainExt rfl [.tdRes c true] rfl (by simp [Ev.plain]),
          (hl.tgrow gtd.2.1 qtd.2.1.openCtx).tgrow ((TGrow.refl _).cons rfl) rfl⟩
    · exact ⟨h3.plainExt rfl [.tdRes c false] rfl (by simp [Ev.plain]),
        hl.tgrow ((TGrow.refl _).cons rfl) rfl⟩

theorem execBlock_5 (hwf : cfg.depsBelow) : ∀ (b : Block) (s : St) (D : Nat → Prop) (Q : List Frame),
    b.classesBelow cfg.n = true → Inv [] s → Inv2 cfg.n D Fa Q s → Inv3 (fun _ => 0) s → C5 Q s →
    L5 Q.length s → Inv3 (fun _ => 0) (execBlock cfg b s).1 ∧ L5 Q.length (execBlock cfg b s).1
  | .nil, s, D, Q, _, h, hI, h3, hc5, hl => by rw [execBlock]; exact ⟨h3, hl⟩
  | .cons p rest, s, D, Q, hcb, h, hI, h3, hc5, hl => by
    simp only [Block.classesBelow, Bool.and_eq_true] at hcb
    rw [execBlock]
    have h1 := exec_inv cfg hwf p s h
    have q1 := exec_2 cfg hwf p s D Q hcb.1 h hI
    have l1 := exec_5 hwf p s D Q hcb.1 h hI h3 hc5 hl
    have c1 := exec_C5 cfg hwf p s D Q hcb.1 h hI hc5
    generalize exec cfg p s = r at h1 q1 l1 c1 ⊢
    cases he : r.2 with
    | some e => exact l1
    | none => exact execBlock_5 hwf rest r.1 D Q hcb.2 h1.1 q1.1 l1.1 c1 l1.2
end

end

end Ctx
