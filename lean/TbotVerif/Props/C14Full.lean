import TbotVerif.Props.C14
import TbotVerif.Props.CtxWin3
set_option linter.unusedSimpArgs false
set_option linter.unusedVariables false
/-! # C14, complete: the observable form of I6 and the full `Spec.C14`

    `C14.spec_partial` (Props/C14.lean) proves I1 ∧ … ∧ I5 of `Spec.C14` on the model's log.  This file
    adds the observable form of I6 — inside the `__exit__` of the outermost `with ctx`, as long as
    no teardown has failed, a machine goes down only when no machine built from its class is up —
    and with it the full statement `Spec.C14 cs (run cs) = true` for every well-formed case.

    The proof (Props/CtxWin.lean, CtxWin2.lean, CtxWin3.lean) combines
    * facts that need no invariant (`Syn`): operations below the program level never log `ctxBody`
      (so they never open the window), keep `keepAlive`, keep `_teardown_order` duplicate-free,
      and the frames a `from_context` generator holds are the requests of `cfg.deps` with the
      exclusivity stated there (`HeldDeps`);
    * inside the window (`TdW`/`RxW`, all dependency levels): an exception leaves `teardown` /
      a request exit only after a logged teardown fault (which closes the window); the end of an
      *exclusive* dependency request tears the prerequisite down, and by `exclUnique` only the
      class whose machine has just gone down (which is busy, so no object of it is up) needs it;
    * the exit loop (`tdLoop_W`): by `InvOrd` (the order respects the dependency graph), the
      order has no duplicates and every alive class is in it (`Inv2.ord`), so when class `c` is
      visited every class that needs `c` has been visited and is not alive — nothing built from
      `c` is up. -/
namespace C14
open Ctx

theorem base_init (cs : Case) : Base cs.cfg (initSt cs.ka cs.roe) := by
  refine ⟨inv_init cs.ka cs.roe, ⟨?_, ?_⟩, [], ?_⟩
  · intro c hc; simp [initSt] at hc
  · intro l1 c l2 h; simp [initSt] at h
  · exact (inv2_init cs.cfg.n cs.ka cs.roe).reD (fun _ _ _ _ => Or.inl trivial)

theorem new_init (cs : Case) : New cs.cfg (initSt cs.ka cs.roe) := by
  refine ⟨by simp [initSt], ?_, rfl, rfl⟩
  intro k f hf
  simp [initSt] at hf

/-- **I6 (observable form)** — for dependency graphs in which a class that some `from_context`
    requests exclusively is requested by no other class: whenever a machine of class `c` goes down
    inside the `__exit__` of the outermost `with ctx`, before any teardown has failed, no machine
    whose class requests `c` in its `from_context` is up.  Every well-formed program (nested
    `with ctx`, `reconfigure`, exclusive requests, `try`, `teardown_if_alive`, reset-on-error),
    both keep-alive settings, every fault oracle for initialisations and teardowns. -/
theorem I6 (cs : Case) (hwf : cs.wf = true) : specI6 cs (run cs).reverse = true := by
  obtain ⟨hc, hp⟩ := wf_parts hwf
  unfold specI6
  cases hx : cs.cfg.exclUnique with
  | false => rfl
  | true =>
    simp only [Bool.not_true, Bool.false_or]
    rw [run_reverse]
    have := execBlock_W cs.cfg (exclOnly_of_exclUnique hc hx) (depsBelow_of_wf hc) cs.prog
      (initSt cs.ka cs.roe) hp (base_init cs) (new_init cs)
    unfold runSt
    simp only [St.log, always_cons, condOrder, Bool.true_and]
    exact this.good

/-- **C14** — the specification holds on the model's log for every well-formed case: program,
    dependency graph, flags, fault oracle; no bound on sizes, depths, number of faults. -/
theorem spec (cs : Case) (hwf : cs.wf = true) : Spec.C14 cs (run cs) = true := by
  have h5 := spec_partial cs hwf
  have h6 := I6 cs hwf
  unfold Spec.C14
  simp only [Bool.and_eq_true] at h5 ⊢
  exact ⟨h5, h6⟩

theorem always_split {cond : List Ev → Ev → Bool} {l1 l2 : List Ev} {ev : Ev}
    (h : always cond (l1 ++ ev :: l2) = true) : cond l2 ev = true := by
  induction l1 with
  | nil =>
    simp only [List.nil_append, always_cons, Bool.and_eq_true] at h
    exact h.1
  | cons a l1 ih =>
    simp only [List.cons_append, always_cons, Bool.and_eq_true] at h
    exact ih h.2

/-- I6 event by event: if the log of a well-formed case with `exclUnique` splits as
    `pre ++ down c o :: post` and `pre` ends inside the exit window, then no object that is up
    after `pre` belongs to a class whose `from_context` requests `c`. -/
theorem I6_event (cs : Case) (hwf : cs.wf = true) (hx : cs.cfg.exclUnique = true)
    (pre post : List Ev) (c o : Nat) (h : run cs = pre ++ .down c o :: post)
    (hw : inWindow pre.reverse = true) :
    ∀ a ∈ ups pre.reverse, ∀ d ∈ cs.cfg.depsOf a.1, d.1 ≠ c := by
  have h6 := I6 cs hwf
  unfold specI6 at h6
  simp only [hx, Bool.not_true, Bool.false_or] at h6
  have hr : (run cs).reverse = post.reverse ++ .down c o :: pre.reverse := by
    rw [h]; simp
  rw [hr] at h6
  have hc := always_split h6
  rw [condOrder_down, hw] at hc
  simp only [Bool.not_true, Bool.false_or] at hc
  unfold noDepUp at hc
  rw [List.all_eq_true] at hc
  intro a ha d hd hdc
  have := hc a ha
  simp only [Bool.not_eq_true', List.any_eq_false] at this
  exact this d hd (by simpa using hdc)

/-! ### non-vacuity -/

/-- chain lab <- board (shared) <- u-boot (exclusive) and a linux machine built from u-boot
    (exclusive), no faults -/
def cfgChain : Cfg := { n := 4, deps := [[], [(0, false)], [(1, true)], [(2, true)]], fi := [], fd := [] }

/-- keep-alive, `with ctx: request(linux)`: everything is torn down by the outermost `__exit__` -/
def chain : Case := ⟨cfgChain, true, false, .cons (.ctx (.cons (.req 3 false false none .nil) .nil)) .nil⟩

example : chain.wf = true := by decide
example : chain.cfg.exclUnique = true := by decide
/-- the four machines go down inside the window, dependants first -/
example : run chain = [.ctxEnter, .init 0 0, .yielded true 0 0, .init 1 1, .yielded true 1 1,
    .init 2 2, .yielded true 2 2, .init 3 3, .yielded false 3 3, .released false 3, .ctxBody,
    .down 3 3, .down 2 2, .down 1 1, .released true 0, .released true 1, .released true 2,
    .down 0 0, .ctxLeave, .fin none] := by decide
example : Spec.C14 chain (run chain) = true := spec chain (by decide)
example : f9.cfg.exclUnique = true := by decide
example : Spec.C14 f9 (run f9) = true := spec f9 (by decide)

/-- without `exclUnique` the ordering statement is false (documented behaviour of
    `exclusive=True`): classes 1 and 2 both need class 0, class 2 exclusively -/
def cfgShared : Cfg := { n := 3, deps := [[], [(0, false)], [(0, true)]], fi := [], fd := [] }
def shared : Case := ⟨cfgShared, true, false,
  .cons (.ctx (.cons (.req 1 false false none .nil) (.cons (.req 2 false false none .nil) .nil))) .nil⟩
example : shared.wf = true := by decide
example : shared.cfg.exclUnique = false := by decide
/-- the end of the exclusive request tears class 0 down while the machine of class 1 is still up -/
example : always (condOrder shared.cfg) (run shared).reverse = false := by decide

end C14
