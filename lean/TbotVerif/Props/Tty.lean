import TbotVerif.Model.Tty
/-! The echo law behind `send(read_back=True)`. -/

namespace Tty

theorem echo_append (e : Bool) (a b : Bytes) : echo e (a ++ b) = echo e a ++ echo e b := by
  simp [echo, List.flatMap_append]

theorem echo1_length_noctl (c : Byte) :
    (echo1 false c).length = 1 + (if c == CR then 1 else 0) + (if c == LF then 1 else 0) := by
  unfold echo1
  by_cases h1 : c = CR
  · subst h1; simp [CR, LF]
  · by_cases h2 : c = LF
    · subst h2; simp [CR, LF]
    · simp [h1, h2]

/-- **Echo law** (ECHOCTL off): the tty echoes exactly as many bytes as `send` reads back. -/
theorem echo_length_noctl (inp : Bytes) : (echo false inp).length = readBackLen inp := by
  induction inp with
  | nil => rfl
  | cons c t ih =>
    have : echo false (c :: t) = echo1 false c ++ echo false t := by simp [echo]
    rw [this, List.length_append, ih, echo1_length_noctl]
    unfold readBackLen
    simp only [List.length_cons, List.count_cons]
    split <;> split <;> omega

/-- with ECHOCTL on, a control byte other than TAB, CR, LF is echoed as TWO bytes: the read-back
    count is one short per such byte (the defect behind F2) -/
theorem echo_length_ctl (inp : Bytes) :
    (echo true inp).length = readBackLen inp + (inp.filter fun c => c < 32 && c != TAB && c != CR && c != LF).length := by
  induction inp with
  | nil => rfl
  | cons c t ih =>
    have : echo true (c :: t) = echo1 true c ++ echo true t := by simp [echo]
    rw [this, List.length_append, ih]
    unfold readBackLen echo1
    simp only [List.length_cons, List.count_cons, List.filter_cons]
    by_cases h1 : c = CR
    · subst h1; simp [CR, LF, TAB]; omega
    · by_cases h2 : c = LF
      · subst h2; simp [CR, LF, TAB]; omega
      · by_cases h3 : c < 32
        · by_cases h4 : c = TAB
          · subst h4; simp [CR, LF, TAB]; omega
          · simp [h1, h2, h3, h4]; omega
        · simp [h1, h2, h3]; omega

theorem echo_noctl_of_plain (inp : Bytes) (h : ∀ c ∈ inp, c ≠ CR ∧ c ≠ LF) : echo false inp = inp := by
  induction inp with
  | nil => rfl
  | cons c t ih =>
    have hc := h c (by simp)
    have : echo false (c :: t) = echo1 false c ++ echo false t := by simp [echo]
    rw [this, ih (fun x hx => h x (by simp [hx]))]
    simp [echo1, hc.1, hc.2]

/-- cooking and the text normalisation tbot applies commute with nothing surprising for LF-only
    output: every LF comes back as CR LF -/
theorem cook_length (out : Bytes) : (cook out).length = out.length + out.count LF := by
  induction out with
  | nil => rfl
  | cons c t ih =>
    have : cook (c :: t) = (if c == LF then [CR, LF] else [c]) ++ cook t := by simp [cook]
    rw [this, List.length_append, ih]
    simp only [List.length_cons, List.count_cons]
    split <;> simp <;> omega

end Tty
