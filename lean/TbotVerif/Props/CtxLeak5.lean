import TbotVerif.Props.CtxLeak4
set_option linter.unusedSimpArgs false
set_option linter.unusedVariables false
/-! Second invariant for programs; at the end of a program nothing is alive. -/
namespace Ctx

section
variable (cfg : Cfg)

theorem logLeave_same (r : R) : Same2 r.1 (logLeave r).1 ∧ Sc r.1 (logLeave r).1 := by
  unfold logLeave
  split
  · exact same2_log _ _
  · exact ⟨Same2.refl _, Sc.refl _⟩

theorem ctxExit_2 (hwf : cfg.depsBelow) {D : Nat → Prop} {Q : List Frame} {s : St} (h : Inv [] s)
    (hI : Inv2 cfg.n D Fa Q s) :
    Inv2 cfg.n D Fa Q (ctxExit cfg s).1 ∧ (ctxExit cfg s).1.keepAlive = s.keepAlive ∧
    (ctxExit cfg s).1.roeDefault = s.roeDefault ∧ (ctxExit cfg s).1.openCtx = s.openCtx - 1 ∧
    (∀ c ∈ s.order, c ∈ (ctxExit cfg s).1.order) ∧ Down s (ctxExit cfg s).1 := by
  unfold ctxExit
  simp only
  split
  · have hl := tdLoop_2 (ops_spec cfg hwf cfg.n).1 (ops_2 cfg hwf cfg.n).1
      (fun s c => s.alive c && s.keepAlive) (fun s c hh => by simp at hh; exact hh.1) cfg.n
      (Nat.le_refl _) D Q s.order.reverse s none h hI
    generalize tdLoop (ops cfg cfg.n).teardown (fun s c => s.alive c && s.keepAlive)
      s.order.reverse s none = r at hl ⊢
    refine ⟨hl.1.same ⟨rfl, rfl, rfl, rfl⟩, hl.2.1.keepAlive, hl.2.1.roeDefault, ?_, hl.2.1.order, hl.2.2⟩
    show r.1.openCtx - 1 = s.openCtx - 1
    rw [hl.2.1.openCtx]
  · exact ⟨hI.same ⟨rfl, rfl, rfl, rfl⟩, rfl, rfl, rfl, fun _ hx => hx, Down.refl s⟩

/-- the `finally` of `reconfigure` with keep-alive switched back off: afterwards no class dangles -/
theorem reconfExit_2 (hwf : cfg.depsBelow) {D D' : Nat → Prop} {Q : List Frame} (ka0 roe0 : Bool)
    (ka : Option Bool) {s : St} (h : Inv [] s) (hI : Inv2 cfg.n D' Fa Q s)
    (hnd : ¬(ka0 = false ∧ ka = some true) → ka0 = false → ∀ c, (s.mgrs c).inst ≠ none →
      (s.mgrs c).users = 0 → D c) :
    Inv2 cfg.n D Fa Q (reconfExit cfg ka0 roe0 ka s).1 ∧
    (reconfExit cfg ka0 roe0 ka s).1.keepAlive = ka0 ∧ (reconfExit cfg ka0 roe0 ka s).1.roeDefault = roe0 ∧
    (reconfExit cfg ka0 roe0 ka s).1.openCtx = s.openCtx ∧
    (∀ c ∈ s.order, c ∈ (reconfExit cfg ka0 roe0 ka s).1.order) ∧
    Down s (reconfExit cfg ka0 roe0 ka s).1 := by
  unfold reconfExit
  simp only
  have hx : Ext s { s with keepAlive := ka0, roeDefault := roe0 } :=
    ⟨rfl, rfl, rfl, rfl, rfl, [], by simp, by simp⟩
  have h' : Inv [] ({ s with keepAlive := ka0, roeDefault := roe0 } : St) := h.ext hx
  split
  · rename_i hc
    have hka0 : ka0 = false := by simp at hc; exact hc.1
    -- re-enter the keep-alive-off regime with the currently dangling classes tolerated
    have hI' : Inv2 cfg.n (dang ({ s with keepAlive := ka0, roeDefault := roe0 } : St)) Fa Q
        ({ s with keepAlive := ka0, roeDefault := roe0 } : St) :=
      ⟨hI.dh, fun _ c hi hu => Or.inl ⟨hi, hu⟩, hI.ord, hI.bnd⟩
    have hcondA : ∀ (s : St) (c : Nat), (s.alive c && (s.mgr c).users == 0) = true → s.alive c = true := by
      intro s c hh; simp at hh; exact hh.1
    have hl := tdLoop_2 (ops_spec cfg hwf cfg.n).1 (ops_2 cfg hwf cfg.n).1
      (fun s c => s.alive c && (s.mgr c).users == 0) hcondA cfg.n (Nat.le_refl _) _ Q
      ({ s with keepAlive := ka0, roeDefault := roe0 } : St).order.reverse _ none h' hI'
    have hd := tdLoop_dang (ops_spec cfg hwf cfg.n).1 (ops_2 cfg hwf cfg.n).1 cfg.n (Nat.le_refl _) Q
      ({ s with keepAlive := ka0, roeDefault := roe0 } : St).order.reverse _
      ({ s with keepAlive := ka0, roeDefault := roe0 } : St) none h' hI' hka0
    generalize tdLoop (ops cfg cfg.n).teardown (fun s c => s.alive c && (s.mgr c).users == 0)
      ({ s with keepAlive := ka0, roeDefault := roe0 } : St).order.reverse
      ({ s with keepAlive := ka0, roeDefault := roe0 } : St) none = r at hl hd ⊢
    refine ⟨hl.1.reD ?_, hl.2.1.keepAlive, hl.2.1.roeDefault, hl.2.1.openCtx, hl.2.1.order, hl.2.2⟩
    -- nothing dangles: a dangling class would be alive, hence in the order, hence visited
    intro _ c hi hu
    exfalso
    obtain ⟨hds, hnot⟩ := hd c ⟨hi, hu⟩
    rcases hI.ord c hds.1 with ho | hf
    · exact hnot (List.mem_reverse.mpr ho)
    · exact hf
  · rename_i hc
    refine ⟨⟨hI.dh, ?_, hI.ord, hI.bnd⟩, rfl, rfl, rfl, fun _ hx => hx, Down.refl _⟩
    intro hk c hi hu
    left
    exact hnd (by simpa using hc) hk c hi hu

mutual
/-- programs preserve the second invariant, for every set `D` of tolerated dangling classes and
    every list `Q` of pending frames -/
theorem exec_2 (hwf : cfg.depsBelow) : ∀ (p : Stmt) (s : St) (D : Nat → Prop) (Q : List Frame),
    p.classesBelow cfg.n = true → Inv [] s → Inv2 cfg.n D Fa Q s →
    Inv2 cfg.n D Fa Q (exec cfg p s).1 ∧ Eff s (exec cfg p s).1
  | .req c reset excl roe body, s, D, Q, hcb, h, hI => by
    simp only [Stmt.classesBelow, Bool.and_eq_true, decide_eq_true_eq] at hcb
    rw [exec]
    have hre := (ops_spec cfg hwf cfg.n).2.2 [] false c reset excl roe s h (by simp)
    have qre := (ops_2 cfg hwf cfg.n).2.2 cfg.n D Fa Q [] false c reset excl roe s hcb.1 hcb.1 h (by simp) hI
    generalize (ops cfg cfg.n).reqEnter false c reset excl roe s = r at hre qre ⊢
    obtain ⟨s1, res⟩ := r
    cases res with
    | inr e =>
      simp only
      have hs := same2_log s1 (.leaves e)
      exact ⟨(qre.2.2 e rfl).same hs.1, qre.1.trans (Eff.of_sc hs.2)⟩
    | inl f =>
      simp only
      obtain ⟨hfo, hfh, hfc, _⟩ := hre.2.2 f rfl
      simp only at hfo hfh hre qre
      have hb := execBlock_inv cfg hwf body s1 hre.1
      have qb := execBlock_2 hwf body s1 D (f :: Q) hcb.2 hre.1 (qre.2.1 f rfl)
      generalize execBlock cfg body s1 = rb at hb qb ⊢
      have hp : Pend [f] rb.1 := (Pend.single hfo hfh).tr hb.2.tr hre.1.idLt (by simp)
      have qrx := (ops_2 cfg hwf cfg.n).2.1 cfg.n D Fa Q [] f rb.1 rb.2 (by omega) (by omega) hb.1
        (by simp) (hp.isOpen f (by simp)) (hp.notHeld f (by simp)) qb.1
      generalize (ops cfg cfg.n).reqExit f rb.1 rb.2 = r2 at qrx ⊢
      have hs := logLeave_same r2
      exact ⟨qrx.1.same hs.1, ((qre.1.trans qb.2).trans qrx.2.1).trans (Eff.of_sc hs.2)⟩
  | .ctx body, s, D, Q, hcb, h, hI => by
    simp only [Stmt.classesBelow] at hcb
    rw [exec]
    have hx1 : Ext s ({ (s.log .ctxEnter) with openCtx := (s.log .ctxEnter).openCtx + 1 } : St) :=
      ⟨rfl, rfl, rfl, rfl, rfl, [.ctxEnter], by simp [Ev.quiet], by simp [St.log]⟩
    have hI1 : Inv2 cfg.n D Fa Q ({ (s.log .ctxEnter) with openCtx := (s.log .ctxEnter).openCtx + 1 } : St) :=
      hI.same ⟨rfl, rfl, rfl, rfl⟩
    have hb := execBlock_inv cfg hwf body _ (h.ext hx1)
    have qb := execBlock_2 hwf body _ D Q hcb (h.ext hx1) hI1
    generalize execBlock cfg body ({ (s.log .ctxEnter) with openCtx := (s.log .ctxEnter).openCtx + 1 } : St) = rb at hb qb ⊢
    have hx2 : Ext rb.1 (rb.1.log .ctxBody) := ext_log (by simp [Ev.quiet])
    have qc := ctxExit_2 cfg hwf (hb.1.ext hx2) (qb.1.same (same2_log rb.1 .ctxBody).1)
    generalize ctxExit cfg (rb.1.log .ctxBody) = r2 at qc ⊢
    have hs3 := same2_log r2.1 .ctxLeave
    have hs4 := logLeave_same (r2.1.log .ctxLeave, later rb.2 r2.2)
    refine ⟨(qc.1.same hs3.1).same hs4.1, ?_, ?_, ?_, ?_⟩
    · rw [hs4.2.keepAlive, hs3.2.keepAlive, qc.2.1]
      exact qb.2.keepAlive
    · rw [hs4.2.roeDefault, hs3.2.roeDefault, qc.2.2.1]
      exact qb.2.roeDefault
    · rw [hs4.2.openCtx, hs3.2.openCtx, qc.2.2.2.1]
      have : rb.1.openCtx = s.openCtx + 1 := qb.2.openCtx
      show rb.1.openCtx - 1 = s.openCtx
      omega
    · intro x hx
      rw [hs4.2.order, hs3.2.order]
      exact qc.2.2.2.2.1 x (qb.2.order x hx)
  | .reconf ka roe body, s, D, Q, hcb, h, hI => by
    simp only [Stmt.classesBelow] at hcb
    rw [exec]
    have hx1 : Ext s ({ s with keepAlive := ka.getD s.keepAlive, roeDefault := roe.getD s.roeDefault } : St) :=
      ⟨rfl, rfl, rfl, rfl, rfl, [], by simp, by simp⟩
    -- inside the block: additionally tolerate what dangles at its start
    have hb := execBlock_inv cfg hwf body _ (h.ext hx1)
    have hI1 : Inv2 cfg.n (fun c => D c ∨ dang ({ s with keepAlive := ka.getD s.keepAlive, roeDefault := roe.getD s.roeDefault } : St) c) Fa Q
        ({ s with keepAlive := ka.getD s.keepAlive, roeDefault := roe.getD s.roeDefault } : St) :=
      ⟨hI.dh, fun _ c hi hu => Or.inl (Or.inr ⟨hi, hu⟩), hI.ord, hI.bnd⟩
    have qb := execBlock_2 hwf body _ _ Q hcb (h.ext hx1) hI1
    generalize execBlock cfg body ({ s with keepAlive := ka.getD s.keepAlive, roeDefault := roe.getD s.roeDefault } : St) = rb at hb qb ⊢
    have hkb : rb.1.keepAlive = ka.getD s.keepAlive := qb.2.keepAlive
    have qc := reconfExit_2 cfg hwf (D := D) s.keepAlive s.roeDefault ka hb.1 qb.1
      (fun hnl hk0 c hi hu => by
        -- keep-alive was off before and is off inside the block
        have hk' : ka.getD s.keepAlive = false := by
          rw [hk0]
          cases ka with
          | none => rfl
          | some b =>
            cases b with
            | false => rfl
            | true => exact absurd ⟨hk0, rfl⟩ hnl
        rcases qb.1.nd (by rw [hkb]; exact hk') c hi hu with (hd | hd) | hf
        · exact hd
        · rcases hI.nd hk0 c hd.1 hd.2 with hd' | hf
          · exact hd'
          · exact absurd hf id
        · exact absurd hf id)
    generalize reconfExit cfg s.keepAlive s.roeDefault ka rb.1 = r2 at qc ⊢
    have hs4 := logLeave_same (r2.1, later rb.2 r2.2)
    refine ⟨qc.1.same hs4.1, ?_, ?_, ?_, ?_⟩
    · rw [hs4.2.keepAlive]; exact qc.2.1
    · rw [hs4.2.roeDefault]; exact qc.2.2.1
    · rw [hs4.2.openCtx, qc.2.2.2.1]; exact qb.2.openCtx
    · intro x hx
      rw [hs4.2.order]
      exact qc.2.2.2.2.1 x (qb.2.order x hx)
  | .try_ body, s, D, Q, hcb, h, hI => by
    simp only [Stmt.classesBelow] at hcb
    rw [exec]
    have qb := execBlock_2 hwf body s D Q hcb h hI
    generalize execBlock cfg body s = rb at qb ⊢
    cases he : rb.2 with
    | some e =>
      have hs := same2_log rb.1 (.caught e)
      exact ⟨qb.1.same hs.1, qb.2.trans (Eff.of_sc hs.2)⟩
    | none => exact qb
  | .raise, s, D, Q, _, h, hI => by
    rw [exec]
    have h1 := same2_newExc s .body
    have h2 := same2_log (s.newExc .body).1 (.created (s.newExc .body).2)
    exact ⟨(hI.same h1.1).same h2.1, (Eff.of_sc h1.2).trans (Eff.of_sc h2.2)⟩
  | .skip, s, D, Q, _, h, hI => by
    rw [exec]
    have h1 := same2_newExc s .skip
    have h2 := same2_log (s.newExc .skip).1 (.created (s.newExc .skip).2)
    exact ⟨(hI.same h1.1).same h2.1, (Eff.of_sc h1.2).trans (Eff.of_sc h2.2)⟩
  | .td c, s, D, Q, hcb, h, hI => by
    simp only [Stmt.classesBelow, decide_eq_true_eq] at hcb
    rw [exec]
    split
    · have qtd := (ops_2 cfg hwf cfg.n).1 cfg.n D Fa Q [] c s hcb hcb h (by simp) hI
      generalize (ops cfg cfg.n).teardown c s = r at qtd ⊢
      simp only
      cases he : r.2 with
      | some e =>
        have hs := same2_log r.1 (.leaves e)
        exact ⟨qtd.1.same hs.1, qtd.2.1.trans (Eff.of_sc hs.2)⟩
      | none =>
        have hs := same2_log r.1 (.tdRes c true)
        exact ⟨qtd.1.same hs.1, qtd.2.1.trans (Eff.of_sc hs.2)⟩
    · have hs := same2_log s (.tdRes c false)
      exact ⟨hI.same hs.1, Eff.of_sc hs.2⟩

theorem execBlock_2 (hwf : cfg.depsBelow) : ∀ (b : Block) (s : St) (D : Nat → Prop) (Q : List Frame),
    b.classesBelow cfg.n = true → Inv [] s → Inv2 cfg.n D Fa Q s →
    Inv2 cfg.n D Fa Q (execBlock cfg b s).1 ∧ Eff s (execBlock cfg b s).1
  | .nil, s, D, Q, _, h, hI => by
    rw [execBlock]
    exact ⟨hI, Eff.refl s⟩
  | .cons p rest, s, D, Q, hcb, h, hI => by
    simp only [Block.classesBelow, Bool.and_eq_true] at hcb
    rw [execBlock]
    have h1 := exec_inv cfg hwf p s h
    have q1 := exec_2 hwf p s D Q hcb.1 h hI
    generalize exec cfg p s = r at h1 q1 ⊢
    split
    · exact q1
    · have q2 := execBlock_2 hwf rest r.1 D Q hcb.2 h1.1 q1.1
      exact ⟨q2.1, q1.2.trans q2.2⟩
end

end

end Ctx
