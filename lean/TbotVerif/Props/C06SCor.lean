import TbotVerif.Props.C06SSpec
/-! Corollaries of the loop invariant about a single `read(n, T)` / `write(buf)` on an arbitrary
    state: `never_late`, `never_early`, `timeout_exact`, `no_timeout_without_deadline`,
    `slice_bound`, `data_asap`, `closed_within_slice`, `zero_timeout_poll`, `hang_iff`,
    `write_guard`. -/
namespace C06S
open SubIO

theorem osRead_now (n : Nat) (s : SubIO.St) : (osRead n s).2.now = s.now := by
  unfold osRead
  split
  · split <;> rfl
  · rfl

theorem osRead_out (n : Nat) (s : SubIO.St) :
    (ready s.pend s.now = true → ∃ b, (osRead n s).1 = .data b)
    ∧ (ready s.pend s.now = false → (osRead n s).1 = .closed) := by
  constructor
  · intro h
    obtain ⟨p, ps, _, _, ho⟩ := osRead_ready n s h
    exact ⟨_, by rw [ho]⟩
  · intro h; rw [osRead_not_ready n s h]

/-- `read` in terms of its select loop (subprocess alive on entry) -/
theorem read_loop (mrw : Nat) (gone : Option Nat) (n : Nat) (T : Option Nat) (s : SubIO.St)
    (hc : closedAt gone s.now = false) :
    (SubIO.read mrw gone n T s).2.2 = (loop mrw (T.map (s.now + ·)) gone s.pend s.now []).2.2
    ∧ (SubIO.read mrw gone n T s).2.1.now = (loop mrw (T.map (s.now + ·)) gone s.pend s.now []).2.1
    ∧ ((loop mrw (T.map (s.now + ·)) gone s.pend s.now []).1 = .timeout ↔ (SubIO.read mrw gone n T s).1 = .timeout)
    ∧ ((loop mrw (T.map (s.now + ·)) gone s.pend s.now []).1 = .hang ↔ (SubIO.read mrw gone n T s).1 = .hang)
    ∧ ((loop mrw (T.map (s.now + ·)) gone s.pend s.now []).1 = .closed → (SubIO.read mrw gone n T s).1 = .closed)
    ∧ ((loop mrw (T.map (s.now + ·)) gone s.pend s.now []).1 = .ready →
        (SubIO.read mrw gone n T s).1
          = (osRead n { s with now := (loop mrw (T.map (s.now + ·)) gone s.pend s.now []).2.1 }).1) := by
  unfold SubIO.read
  simp only [hc, Bool.false_eq_true, if_false]
  generalize loop mrw (T.map (s.now + ·)) gone s.pend s.now [] = L
  obtain ⟨o, t1, sel⟩ := L
  cases o with
  | ready =>
    simp only [osRead_now, true_and, reduceCtorEq, false_iff, false_imp_iff, true_imp_iff, and_true]
    have h := osRead_out n { s with now := t1 }
    cases hr : ready s.pend t1 with
    | true => obtain ⟨b, hb⟩ := h.1 hr; simp [hb]
    | false => have hb := h.2 hr; simp [hb]
  | timeout => simp
  | closed => simp
  | hang => simp


theorem read_closed_entry (mrw : Nat) (gone : Option Nat) (n : Nat) (T : Option Nat) (s : SubIO.St)
    (hc : closedAt gone s.now = true) :
    SubIO.read mrw gone n T s = ((osRead n s).1, (osRead n s).2, []) := by
  unfold SubIO.read
  simp [hc]

theorem dlOf_le (t0 : Nat) (T : Option Nat) : ∀ d, T.map (t0 + ·) = some d → t0 ≤ d := by
  intro d hd
  cases T with
  | none => simp at hd
  | some T' => simp only [Option.map_some, Option.some.injEq] at hd; omega

theorem loop_no_deadline (mrw : Nat) (dl gone : Option Nat) (pend : List Piece) (now : Nat) (sel : List Nat)
    (h : dl = none) : (loop mrw dl gone pend now sel).1 ≠ .timeout := by
  fun_induction loop mrw dl gone pend now sel with
  | case1 now sel h1 h2 => subst h; simp at h1
  | case2 now sel h1 h2 => subst h; simp at h1
  | case3 now sel h1 h2 => simp
  | case4 now sel h1 h2 h3 => simp
  | case5 now sel h1 h2 h3 h4 => simp
  | case6 now sel h1 h2 h3 h4 h5 => simp
  | case7 now sel h1 h2 h3 h4 h5 ih => exact ih

theorem loop_kind (o : Loop) : o = .ready ∨ o = .timeout ∨ o = .closed ∨ o = .hang := by
  cases o <;> simp

/-! ### the named corollaries (all about one call `read(n, T)` on an arbitrary state) -/

/-- **never late**: with a timeout `T` the call is over by `t0 + T`, whatever arrives and whenever
    the subprocess goes -/
theorem never_late (mrw : Nat) (gone : Option Nat) (n T : Nat) (s : SubIO.St) (hm : 0 < mrw) :
    (SubIO.read mrw gone n (some T) s).2.1.now ≤ s.now + T := by
  by_cases hc : closedAt gone s.now = true
  · rw [read_closed_entry _ _ _ _ _ hc]; simp only [osRead_now]; omega
  · have hc' : closedAt gone s.now = false := by simpa using hc
    obtain ⟨_, hnow, _, _, _, _⟩ := read_loop mrw gone n (some T) s hc'
    obtain ⟨ext, _, _, _, _, _, hr, ht, hcl, hh⟩ :=
      loop_post mrw ((some T).map (s.now + ·)) gone s.pend s.now [] hm hc' (dlOf_le _ _)
    rw [hnow]
    rcases loop_kind (loop mrw ((some T).map (s.now + ·)) gone s.pend s.now []).1 with h | h | h | h
    · exact (hr h).2.2 _ rfl
    · obtain ⟨d, hd, htd, _⟩ := ht h
      simp only [Option.map_some, Option.some.injEq] at hd
      omega
    · exact (hcl h).2.2.2 _ rfl
    · exact absurd (hh h).1 (by simp)

/-- **never early**: a `TimeoutError` is raised at exactly `t0 + T`, and nothing was readable up to
    and including that instant -/
theorem never_early (mrw : Nat) (gone : Option Nat) (n : Nat) (T : Option Nat) (s : SubIO.St) (hm : 0 < mrw)
    (h : (SubIO.read mrw gone n T s).1 = .timeout) :
    ∃ T', T = some T' ∧ (SubIO.read mrw gone n T s).2.1.now = s.now + T' ∧ ready s.pend (s.now + T') = false
      ∧ closedAt gone s.now = false := by
  by_cases hc : closedAt gone s.now = true
  · rw [read_closed_entry _ _ _ _ _ hc] at h
    have := osRead_out n s
    cases hr : ready s.pend s.now with
    | true => obtain ⟨b, hb⟩ := this.1 hr; simp [hb] at h
    | false => simp [this.2 hr] at h
  · have hc' : closedAt gone s.now = false := by simpa using hc
    obtain ⟨_, hnow, hto, _, _, _⟩ := read_loop mrw gone n T s hc'
    obtain ⟨ext, _, _, _, _, _, _, ht, _, _⟩ :=
      loop_post mrw (T.map (s.now + ·)) gone s.pend s.now [] hm hc' (dlOf_le _ _)
    obtain ⟨d, hd, htd, hrd⟩ := ht (hto.mpr h)
    cases T with
    | none => simp at hd
    | some T' =>
      simp only [Option.map_some, Option.some.injEq] at hd
      subst hd
      exact ⟨T', rfl, by rw [hnow]; exact htd, hrd, hc'⟩

/-- **timeout exact**: while the subprocess is alive up to the deadline, `read(n, T)` raises
    `TimeoutError` iff nothing is readable at any time up to AND INCLUDING `t0 + T` (the interval is
    closed on the right: a piece arriving exactly at the deadline is delivered) — and then at exactly
    `t0 + T` (`never_early`).  With the subprocess gone by the deadline the call ends with
    `ChannelClosedError` or data instead (`closed_within_slice`). -/
theorem timeout_exact (mrw : Nat) (gone : Option Nat) (n T : Nat) (s : SubIO.St) (hm : 0 < mrw)
    (hg : closedAt gone (s.now + T) = false) :
    (SubIO.read mrw gone n (some T) s).1 = .timeout ↔ ready s.pend (s.now + T) = false := by
  constructor
  · intro h
    obtain ⟨T', hT, _, hr, _⟩ := never_early mrw gone n (some T) s hm h
    cases hT; exact hr
  · intro hnr
    have hc' : closedAt gone s.now = false := by
      cases hcc : closedAt gone s.now with
      | false => rfl
      | true => rw [closedAt_mono gone (Nat.le_add_right _ _) hcc] at hg; exact absurd hg (by simp)
    obtain ⟨_, _, hto, _, _, _⟩ := read_loop mrw gone n (some T) s hc'
    obtain ⟨ext, _, _, _, _, _, hr, ht, hcl, hh⟩ :=
      loop_post mrw ((some T).map (s.now + ·)) gone s.pend s.now [] hm hc' (dlOf_le _ _)
    rcases loop_kind (loop mrw ((some T).map (s.now + ·)) gone s.pend s.now []).1 with h | h | h | h
    · obtain ⟨ha, _, hd⟩ := hr h
      rw [ready_mono s.pend (hd _ rfl) ha] at hnr; exact absurd hnr (by simp)
    · exact hto.mp h
    · obtain ⟨ha, _, _, hd⟩ := hcl h
      rw [closedAt_mono gone (hd _ rfl) ha] at hg; exact absurd hg (by simp)
    · exact absurd (hh h).1 (by simp)

/-- **no timeout without a deadline**: `read(n, None)` never raises `TimeoutError` (for any slice
    length, also 0) -/
theorem no_timeout_without_deadline (mrw : Nat) (gone : Option Nat) (n : Nat) (s : SubIO.St) :
    (SubIO.read mrw gone n none s).1 ≠ .timeout := by
  by_cases hc : closedAt gone s.now = true
  · rw [read_closed_entry _ _ _ _ _ hc]
    have := osRead_out n s
    cases hr : ready s.pend s.now with
    | true => obtain ⟨b, hb⟩ := this.1 hr; simp [hb]
    | false => simp [this.2 hr]
  · have hc' : closedAt gone s.now = false := by simpa using hc
    obtain ⟨_, _, hto, _, _, _⟩ := read_loop mrw gone n none s hc'
    intro h
    exact loop_no_deadline mrw _ gone s.pend s.now [] rfl (hto.mpr h)

theorem selOk_mem (mrw : Nat) (dl : Option Nat) (start : Nat) (l : List Nat) (h : selOk mrw dl start l = true) :
    ∀ x ∈ l, x ≤ mrw ∧ (∀ d, dl = some d → start + x ≤ d) ∧ (dl = none → 0 < x) := by
  induction l generalizing start with
  | nil => simp
  | cons y ys ih =>
    intro x hx
    simp only [selOk, Bool.and_eq_true, decide_eq_true_eq] at h
    obtain ⟨⟨h1, h2⟩, h3⟩ := h
    rcases List.mem_cons.mp hx with rfl | hx
    · refine ⟨h1, ?_, ?_⟩
      · intro d hd; subst hd; simp only [Bool.and_eq_true, decide_eq_true_eq] at h2; exact h2.1
      · intro hd; subst hd; simpa using h2
    · obtain ⟨a, b, c⟩ := ih (start + y) h3 x hx
      exact ⟨a, fun d hd => by have := b d hd; omega, c⟩

/-- **slice bound**: every timeout handed to `select` is at most `MIN_READ_WAIT` and at most the
    time that remains to the deadline when it is made (`selOk`, which also says that only the last
    poll at the deadline may be 0); in particular no slice exceeds the call's timeout -/
theorem slice_bound (mrw : Nat) (gone : Option Nat) (n : Nat) (T : Option Nat) (s : SubIO.St) (hm : 0 < mrw) :
    selOk mrw (T.map (s.now + ·)) s.now (SubIO.read mrw gone n T s).2.2 = true
    ∧ ∀ x ∈ (SubIO.read mrw gone n T s).2.2, x ≤ mrw ∧ (∀ T', T = some T' → x ≤ T') ∧ (T = none → 0 < x) := by
  have key : selOk mrw (T.map (s.now + ·)) s.now (SubIO.read mrw gone n T s).2.2 = true := by
    by_cases hc : closedAt gone s.now = true
    · rw [read_closed_entry _ _ _ _ _ hc]; rfl
    · have hc' : closedAt gone s.now = false := by simpa using hc
      obtain ⟨hsel, _⟩ := read_loop mrw gone n T s hc'
      obtain ⟨ext, he, hs, _⟩ := loop_post mrw (T.map (s.now + ·)) gone s.pend s.now [] hm hc' (dlOf_le _ _)
      rw [hsel, he]; exact hs
  refine ⟨key, fun x hx => ?_⟩
  obtain ⟨a, b, c⟩ := selOk_mem _ _ _ _ key x hx
  refine ⟨a, ?_, ?_⟩
  · intro T' hT; subst hT; have := b (s.now + T') rfl; omega
  · intro hT; subst hT; exact c rfl

/-- **data as soon as it is there**: a read that returns data does so at `max t0 a`, `a` the
    arrival time of the next unread piece -/
theorem data_asap (mrw : Nat) (gone : Option Nat) (n : Nat) (T : Option Nat) (s : SubIO.St) (hm : 0 < mrw)
    (b : Bytes) (h : (SubIO.read mrw gone n T s).1 = .data b) :
    some (SubIO.read mrw gone n T s).2.1.now = (headTick s.pend).map (max s.now) := by
  by_cases hc : closedAt gone s.now = true
  · rw [read_closed_entry _ _ _ _ _ hc] at h ⊢
    simp only [osRead_now]
    cases hr : ready s.pend s.now with
    | false => simp [(osRead_out n s).2 hr] at h
    | true =>
      cases hs : s.pend with
      | nil => rw [hs] at hr; simp [ready] at hr
      | cons p ps =>
        rw [hs] at hr
        simp only [ready, decide_eq_true_eq] at hr
        simp only [headTick, List.head?_cons, Option.map_some, Option.some.injEq]
        omega
  · have hc' : closedAt gone s.now = false := by simpa using hc
    obtain ⟨_, hnow, hto, hhg, hcl', _⟩ := read_loop mrw gone n T s hc'
    obtain ⟨ext, _, _, _, _, _, hr, _, _, _⟩ :=
      loop_post mrw (T.map (s.now + ·)) gone s.pend s.now [] hm hc' (dlOf_le _ _)
    rw [hnow]
    rcases loop_kind (loop mrw (T.map (s.now + ·)) gone s.pend s.now []).1 with h' | h' | h' | h'
    · exact (hr h').2.1
    · rw [hto.mp h'] at h; simp at h
    · rw [hcl' h'] at h; simp at h
    · rw [hhg.mp h'] at h; simp at h

/-- **closed within one slice**: `ChannelClosedError` is only raised once the subprocess is gone,
    never while something is readable, at once if it was gone on entry and otherwise less than one
    slice after it went (and not after the deadline: `never_late`) -/
theorem closed_within_slice (mrw : Nat) (gone : Option Nat) (n : Nat) (T : Option Nat) (s : SubIO.St)
    (hm : 0 < mrw) (h : (SubIO.read mrw gone n T s).1 = .closed) :
    ∃ g, gone = some g ∧ g ≤ (SubIO.read mrw gone n T s).2.1.now
      ∧ ready s.pend (SubIO.read mrw gone n T s).2.1.now = false
      ∧ (g ≤ s.now → (SubIO.read mrw gone n T s).2.1.now = s.now)
      ∧ (s.now < g → (SubIO.read mrw gone n T s).2.1.now < g + mrw) := by
  by_cases hc : closedAt gone s.now = true
  · rw [read_closed_entry _ _ _ _ _ hc] at h ⊢
    simp only [osRead_now]
    cases gone with
    | none => simp [closedAt] at hc
    | some g =>
      simp only [closedAt, decide_eq_true_eq] at hc
      refine ⟨g, rfl, hc, ?_, by simp, fun hlt => by omega⟩
      cases hr : ready s.pend s.now with
      | false => rfl
      | true => obtain ⟨b, hb⟩ := (osRead_out n s).1 hr; simp [hb] at h
  · have hc' : closedAt gone s.now = false := by simpa using hc
    obtain ⟨_, hnow, hto, hhg, _, hrd⟩ := read_loop mrw gone n T s hc'
    obtain ⟨ext, _, _, _, _, _, hr, _, hcl, _⟩ :=
      loop_post mrw (T.map (s.now + ·)) gone s.pend s.now [] hm hc' (dlOf_le _ _)
    rw [hnow]
    rcases loop_kind (loop mrw (T.map (s.now + ·)) gone s.pend s.now []).1 with h' | h' | h' | h'
    · -- the loop saw data: `os.read` then returns it
      obtain ⟨ha, _, _⟩ := hr h'
      obtain ⟨b, hb⟩ := (osRead_out n { s with now := (loop mrw (T.map (s.now + ·)) gone s.pend s.now []).2.1 }).1 ha
      rw [hrd h', hb] at h; simp at h
    · rw [hto.mp h'] at h; simp at h
    · obtain ⟨ha, hb, ⟨g, hg, hlt⟩, _⟩ := hcl h'
      subst hg
      simp only [closedAt, decide_eq_true_eq, decide_eq_false_iff_not] at ha hc'
      exact ⟨g, rfl, ha, hb, fun hle => by omega, fun _ => hlt⟩
    · rw [hhg.mp h'] at h; simp at h

/-- **timeout = 0 is a non-blocking read**: no time passes, `select` is asked exactly once with a
    zero timeout, and the outcome is the data that is waiting, or `TimeoutError` if there is none -/
theorem zero_timeout_poll (mrw : Nat) (gone : Option Nat) (n : Nat) (s : SubIO.St)
    (hc : closedAt gone s.now = false) :
    (SubIO.read mrw gone n (some 0) s).2.1.now = s.now
    ∧ (SubIO.read mrw gone n (some 0) s).2.2 = [0]
    ∧ ((SubIO.read mrw gone n (some 0) s).1 = .timeout ↔ ready s.pend s.now = false)
    ∧ (ready s.pend s.now = true → ∃ b, (SubIO.read mrw gone n (some 0) s).1 = .data b) := by
  have hl : loop mrw ((some 0).map (s.now + ·)) gone s.pend s.now []
      = (if ready s.pend s.now then (Loop.ready, s.now, [0]) else (Loop.timeout, s.now, [0])) := by
    rw [loop]
    simp [slice]
  obtain ⟨hsel, hnow, hto, _, _, hrd⟩ := read_loop mrw gone n (some 0) s hc
  rw [hl] at hsel hnow hto hrd
  cases hr : ready s.pend s.now with
  | true =>
    simp only [hr, if_true] at hsel hnow hto hrd
    obtain ⟨b, hb⟩ := (osRead_out n { s with now := s.now }).1 hr
    refine ⟨hnow, hsel, ?_, fun _ => ⟨b, by rw [hrd trivial]; exact hb⟩⟩
    rw [← hto]; simp
  | false =>
    simp only [hr, Bool.false_eq_true, if_false] at hsel hnow hto
    exact ⟨hnow, hsel, by rw [← hto]; simp, by simp⟩

/-- **never returning**: exactly when there is no timeout, nothing is scripted and the subprocess
    never goes -/
theorem hang_iff (mrw : Nat) (gone : Option Nat) (n : Nat) (T : Option Nat) (s : SubIO.St) (hm : 0 < mrw) :
    (SubIO.read mrw gone n T s).1 = .hang ↔ T = none ∧ s.pend = [] ∧ gone = none := by
  constructor
  · intro h
    by_cases hc : closedAt gone s.now = true
    · rw [read_closed_entry _ _ _ _ _ hc] at h
      cases hr : ready s.pend s.now with
      | true => obtain ⟨b, hb⟩ := (osRead_out n s).1 hr; simp [hb] at h
      | false => simp [(osRead_out n s).2 hr] at h
    · have hc' : closedAt gone s.now = false := by simpa using hc
      obtain ⟨_, _, _, hhg, _, _⟩ := read_loop mrw gone n T s hc'
      obtain ⟨ext, _, _, _, _, _, _, _, _, hh⟩ :=
        loop_post mrw (T.map (s.now + ·)) gone s.pend s.now [] hm hc' (dlOf_le _ _)
      obtain ⟨ha, hb, hg, _⟩ := hh (hhg.mpr h)
      refine ⟨?_, hb, hg⟩
      cases T with | none => rfl | some _ => simp at ha
  · rintro ⟨rfl, hp, rfl⟩
    obtain ⟨_, _, _, hhg, _, _⟩ := read_loop mrw none n none s (by simp [closedAt])
    rw [← hhg, loop]
    simp [hp, slice, Nat.ne_of_gt hm]

/-- **write guard**: `write` asks `select` for exactly the guard, is over within it, and raises
    its `TimeoutError` iff the master does not become writable within the guard (closed on the right) -/
theorem write_guard (wguard : Nat) (gone wready : Option Nat) (b : Bytes) (s : SubIO.St) :
    (SubIO.write wguard gone wready b s).2.1.now ≤ s.now + wguard
    ∧ (∀ x ∈ (SubIO.write wguard gone wready b s).2.2, x = wguard)
    ∧ ((SubIO.write wguard gone wready b s).1 = .wtimeout ↔
        closedAt gone s.now = false ∧ ∀ w, wready = some w → s.now + wguard < w) := by
  unfold SubIO.write
  by_cases hc : closedAt gone s.now = true
  · simp [hc]
  · have hc' : closedAt gone s.now = false := by simpa using hc
    simp only [hc', Bool.false_eq_true, if_false, true_and]
    cases wready with
    | none => simp
    | some w =>
      simp only
      by_cases h1 : w ≤ s.now
      · simp only [h1, if_true]
        split <;> (simp; omega)
      · simp only [h1, if_false]
        by_cases h2 : w ≤ s.now + wguard
        · simp only [h2, if_true]
          split <;> (simp; omega)
        · simp only [h2, if_false]
          simp; omega

end C06S
