import TbotVerif.Props.CtxExec
import TbotVerif.Props.CtxLeak6
import TbotVerif.Props.CtxTrace4
import TbotVerif.Props.CtxTrace5
import TbotVerif.Props.CtxOrder
set_option linter.unusedSimpArgs false
set_option linter.unusedVariables false
/-! # C14 — the context never has two live instances of a machine and never leaks one

    Theorems about the model `Ctx.run` (Model/Ctx.lean) for **every** program, configuration and
    fault oracle (machine initialisations and teardowns that raise), by invariant + induction;
    no bound on program size, nesting depth, number of classes or number of faults. -/
namespace C14
open Ctx

/-- a well-formed configuration only has dependency requests to smaller class numbers -/
theorem depsBelow_of_wf {cfg : Cfg} (h : cfg.wf = true) : cfg.depsBelow := by
  intro c d hd
  unfold Cfg.wf at h
  simp only [Bool.and_eq_true, beq_iff_eq, List.all_eq_true, List.mem_range, decide_eq_true_eq] at h
  by_cases hc : c < cfg.n
  · exact h.2 c hc d hd
  · -- no dependencies are recorded for classes that are not registered
    exfalso
    unfold Cfg.depsOf at hd
    have : cfg.deps.length ≤ c := by omega
    simp [List.getD, List.getElem?_eq_none this] at hd

/-- the initial state satisfies the invariant -/
theorem inv_init (ka roe : Bool) : Inv [] (initSt ka roe) := by
  constructor <;> simp [initSt, IdsNodup, cntCls, cntObj]

/-- the invariant holds in the final state of every well-formed case -/
theorem inv_runSt (cs : Case) (hwf : cs.cfg.wf = true) : Inv [] (runSt cs) := by
  unfold runSt
  have h := (execBlock_inv cs.cfg (depsBelow_of_wf hwf) cs.prog _ (inv_init cs.ka cs.roe)).1
  exact h.ext (ext_log (by simp [Ev.quiet]))

theorem run_reverse (cs : Case) : (run cs).reverse = (runSt cs).trace := by
  simp [run]

/-- **I1** — at every moment at most one object per class is up: whenever a machine is
    initialised, no object of its class is up.  Every program, configuration, fault oracle. -/
theorem I1 (cs : Case) (hwf : cs.cfg.wf = true) : specI1 (run cs).reverse = true := by
  rw [run_reverse]; exact (inv_runSt cs hwf).tI1

/-- **I2 (alternation, exactly once)** — every initialisation creates a fresh object (no object is
    initialised twice) and only an object that is up is torn down. -/
theorem I2_alternation (cs : Case) (hwf : cs.cfg.wf = true) :
    always condFresh (run cs).reverse = true ∧ always condDown (run cs).reverse = true := by
  rw [run_reverse]; exact ⟨(inv_runSt cs hwf).tFresh, (inv_runSt cs hwf).tDown⟩

/-- **I3** — the object yielded by a request (made by the program or inside a `from_context`) is up
    at that moment. -/
theorem I3 (cs : Case) (hwf : cs.cfg.wf = true) : specI3 (run cs).reverse = true := by
  rw [run_reverse]; exact (inv_runSt cs hwf).tYield

/-- corollary of the invariant: in the final state the objects that are up are exactly the
    instances of the managers, one per class, and the log's `ups` is that set -/
theorem final_ups (cs : Case) (hwf : cs.cfg.wf = true) (c o : Nat) :
    (c, o) ∈ ups (run cs).reverse → ((runSt cs).mgrs c).inst = some o := by
  rw [run_reverse]
  intro hm
  have h := inv_runSt cs hwf
  obtain ⟨_, hc, hu⟩ := (h.upsIff c o).mp hm
  have := (h.upInst o hu).1
  rw [hc] at this
  exact this

theorem inv2_init (n : Nat) (ka roe : Bool) : Inv2 n Fa Fa [] (initSt ka roe) := by
  constructor <;> simp [initSt]

theorem wf_parts {cs : Case} (hwf : cs.wf = true) :
    cs.cfg.wf = true ∧ cs.prog.classesBelow cs.cfg.n = true := by
  unfold Case.wf at hwf
  simpa [Bool.and_eq_true] using hwf

/-- at the end of every program no manager has an instance -/
theorem final_quiet (cs : Case) (hwf : cs.wf = true) : Quiet (runSt cs) := by
  obtain ⟨hc, hp⟩ := wf_parts hwf
  have hd := depsBelow_of_wf hc
  have := execBlock_quiet cs.cfg hd cs.prog (initSt cs.ka cs.roe) hp (inv_init cs.ka cs.roe)
    (inv2_init cs.cfg.n cs.ka cs.roe) rfl (fun c => rfl)
  intro c
  exact this c

/-- **I2 (no leak)** — every machine object that was initialised has been torn down when the
    program ends: nothing is up.  Every well-formed program, every configuration (keep-alive,
    reconfigure, nested `with ctx`, also programs that never enter the context), every fault oracle
    (including teardowns that raise). -/
theorem I2_no_leak (cs : Case) (hwf : cs.wf = true) : ups (run cs).reverse = [] := by
  rw [run_reverse]
  have h := inv_runSt cs (wf_parts hwf).1
  have hq := final_quiet cs hwf
  rw [List.eq_nil_iff_forall_not_mem]
  intro ⟨c, o⟩ hm
  obtain ⟨_, _, hu⟩ := (h.upsIff c o).mp hm
  have := (h.upInst o hu).1
  rw [hq _] at this
  cases this

/-- **I2** — init/teardown events of each object alternate starting with a fresh init, and every
    object ends down: each initialised instance is torn down exactly once. -/
theorem I2 (cs : Case) (hwf : cs.wf = true) : specI2 (run cs).reverse = true := by
  have ha := I2_alternation cs (wf_parts hwf).1
  have hl := I2_no_leak cs hwf
  unfold specI2
  simp [ha.1, ha.2, hl]

/-- **I4** — keep-alive off throughout the case (`keep_alive=False` and no
    `reconfigure(keep_alive=True)`): when the last request on a class — made by the program or by a
    `from_context` — has been left, no object of that class is up.  Every fault oracle. -/
theorem I4 (cs : Case) (hwf : cs.cfg.wf = true) : specI4 cs (run cs).reverse = true := by
  unfold specI4
  by_cases hk : cs.kaOff = true
  · simp only [hk, Bool.not_true, Bool.false_or]
    rw [run_reverse]
    unfold Case.kaOff at hk
    simp only [Bool.and_eq_true, Bool.not_eq_true'] at hk
    have h3 : Inv3 (fun _ => 0) (initSt cs.ka cs.roe) := by
      constructor <;> simp [initSt, opens]
    have g4 : G4 (initSt cs.ka cs.roe) := ⟨by simp [initSt, hk.1], by simp [initSt]⟩
    have := execBlock_G4 cs.cfg (depsBelow_of_wf hwf) cs.prog _ hk.2 (inv_init cs.ka cs.roe) h3 g4
    unfold runSt
    simp only [St.log, always_cons, condRelease, Bool.true_and]
    exact this.2.good
  · simp [hk]

/-- **I5** — after the outermost `with ctx` has been left (normally or by an exception, including
    exceptions raised by a machine teardown) with no request of the program still open, no object
    is up.  Every well-formed program, configuration and fault oracle. -/
theorem I5 (cs : Case) (hwf : cs.wf = true) : specI5 (run cs).reverse = true := by
  obtain ⟨hc, hp⟩ := wf_parts hwf
  unfold specI5
  rw [run_reverse]
  have h3 : Inv3 (fun _ => 0) (initSt cs.ka cs.roe) := by
    constructor <;> simp [initSt, opens]
  have hl : L5 ([] : List Frame).length (initSt cs.ka cs.roe) := by
    constructor <;> simp [initSt, depth, opensP]
  have := execBlock_5 cs.cfg (depsBelow_of_wf hc) cs.prog _ Fa [] hp (inv_init cs.ka cs.roe)
    (inv2_init cs.cfg.n cs.ka cs.roe) h3 (fun _ _ c => rfl) hl
  unfold runSt
  simp only [St.log, always_cons, condLeave, Bool.true_and]
  exact this.2.good

/-- **I6 (state form)** — in the final state (and, by the same invariant `InvOrd`, in every state
    the program goes through) `_teardown_order` lists every class after all the classes its
    `from_context` requests; and an alive class has all its prerequisites in the order.  Since
    `Context.__exit__` walks the order in reverse, dependants are visited first. -/
theorem I6_order (cs : Case) (hwf : cs.cfg.wf = true) :
    ∀ l1 c l2, (runSt cs).order = l1 ++ c :: l2 → ∀ d ∈ cs.cfg.depsOf c, d.1 ∈ l1 := by
  have h0 : InvOrd cs.cfg (initSt cs.ka cs.roe) := by
    constructor
    · intro c hc; simp [initSt] at hc
    · intro l1 c l2 h; simp [initSt] at h
  have := execBlock_O cs.cfg (depsBelow_of_wf hwf) cs.prog _ (inv_init cs.ka cs.roe) h0
  exact this.before

/-- I1 ∧ I2 ∧ I3 ∧ I4 ∧ I5 of `Spec.C14` on the model's log for every well-formed case (program,
    dependency graph, flags, fault oracle).  The remaining conjunct — the observable form of I6 — and
    with it the full statement

        theorem spec (cs : Case) (hwf : cs.wf = true) : Spec.C14 cs (run cs) = true

    are proved in `Props/C14Full.lean` (`C14.I6`, `C14.I6_event`, `C14.spec`), on top of this theorem. -/
theorem spec_partial (cs : Case) (hwf : cs.wf = true) :
    (specI1 (run cs).reverse && specI2 (run cs).reverse && specI3 (run cs).reverse &&
      specI4 cs (run cs).reverse && specI5 (run cs).reverse) = true := by
  have hc := (wf_parts hwf).1
  simp [I1 cs hc, I2 cs hwf, I3 cs hc, I4 cs hc, I5 cs hwf]

/-! ### non-vacuity -/

/-- chain lab <- board (shared) <- u-boot (exclusive); the second machine teardown raises -/
def cfgF9 : Cfg := { n := 3, deps := [[], [(0, false)], [(1, true)]], fi := [], fd := [2] }

/-- the F9 witness: keep-alive, `with ctx: request(board); request(u-boot)`; the teardown of the board
    raises at the outermost exit — the lab-host is still torn down (model of the repaired tree) -/
def f9 : Case := ⟨cfgF9, true, false,
  .cons (.ctx (.cons (.req 1 false false none .nil) (.cons (.req 2 false false none .nil) .nil))) .nil⟩

example : f9.cfg.wf = true := by decide
example : Ev.created ⟨0, .fd⟩ ∈ run f9 ∧ Ev.down 0 0 ∈ run f9 := by decide
example : Spec.C14 f9 (run f9) = true := by decide

end C14
