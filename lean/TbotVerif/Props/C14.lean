import TbotVerif.Spec.Ctx
/-! C14 — theorems (in progress) -/
