import TbotVerif.Props.PathLemmas
/-! C12 — operation by operation: tbot's wrapper (`TP`) against pathlib (`PP`). -/

namespace PathM

/-- `Path(host, <PurePosixPath>)` copies the raw paths and re-parses -/
theorem wrap_eq (h : Mach) (r : PP) : TP.wrap h r = .ok { host := h, path := PP.ofRaw r.raw } := by
  simp [TP.wrap, TP.new, TP.prepareArgs, PP.new, PP.collectRaw, bind, Except.bind, pure, Except.pure]

theorem wrap_consistent (h : Mach) {r : PP} (hc : r.Consistent) :
    TP.wrap h r = .ok { host := h, path := r } := by
  rw [wrap_eq]
  unfold PP.Consistent at hc
  rw [← hc]

/-! ### parents -/

theorem parentsGet_nat (p : PP) (i : Nat) (h : i < p.tail.length) :
    p.parentsGet i = .ok (PP.fromParsed p.root (p.tail.take (p.tail.length - i - 1))) := by
  unfold PP.parentsGet
  have h2 : ¬ ((i : Int) < 0) := by omega
  simp [h2] <;> omega

theorem parentsGet_oob (p : PP) (i : Nat) (h : p.tail.length ≤ i) :
    p.parentsGet i = .error .indexError := by
  unfold PP.parentsGet
  simp <;> omega

/-- negative indices count from the end (3.12) -/
theorem parentsGet_neg' (p : PP) (i : Int) (h1 : i < 0) (h2 : -(p.tail.length : Int) ≤ i) :
    p.parentsGet i = p.parentsGet (i + p.tail.length) := by
  obtain ⟨k, hk⟩ : ∃ k : Nat, i + p.tail.length = k := ⟨(i + p.tail.length).toNat, by omega⟩
  rw [hk, parentsGet_nat p k (by omega)]
  unfold PP.parentsGet
  have c1 : ¬ (i ≥ (p.tail.length : Int) ∨ i < -(p.tail.length : Int)) := by omega
  simp only [ge_iff_le, Bool.or_eq_true, decide_eq_true_eq, c1, ↓reduceIte, h1, hk, Int.toNat_natCast]

theorem parentsGet_exc (p : PP) (i : Int) (e : Exc) (h : p.parentsGet i = .error e) :
    e = .indexError := by
  unfold PP.parentsGet at h
  simp only at h
  split at h
  · simp at h; exact h.symm
  · simp at h

theorem seqIter_eq {α : Type} (get : Int → Except Exc α) (f : Nat → α) (n : Nat)
    (hok : ∀ i, i < n → get i = .ok (f i)) (hend : get n = .error .indexError) :
    ∀ k i, i + k = n → PP.seqIter get (k + 1) i = .ok ((List.range' i k).map f)
  | 0, i, h => by
    have : i = n := by omega
    subst this
    simp [PP.seqIter, hend]
  | k + 1, i, h => by
    have hi : i < n := by omega
    rw [PP.seqIter, hok i hi]
    simp only
    rw [seqIter_eq get f n hok hend k (i + 1) (by omega)]
    simp [bind, Except.bind, pure, Except.pure, List.range'_succ]

/-- `list(p.parents)`: the `len` prefixes of the tail, longest first -/
theorem parentsList_eq (p : PP) :
    p.parentsList = .ok ((List.range p.tail.length).map fun i =>
      PP.fromParsed p.root (p.tail.take (p.tail.length - i - 1))) := by
  unfold PP.parentsList
  rw [seqIter_eq p.parentsGet _ p.tail.length (fun i hi => parentsGet_nat p i hi)
    (parentsGet_oob p _ (Nat.le_refl _)) p.tail.length 0 (by omega)]
  simp [List.range_eq_range']

theorem parentsList_consistent {p : PP} (h : p.Consistent) {l : List PP}
    (hl : p.parentsList = .ok l) : ∀ r ∈ l, r.Consistent := by
  rw [parentsList_eq] at hl
  simp only [Except.ok.injEq] at hl
  subst hl
  intro r hr
  simp only [List.mem_map] at hr
  obtain ⟨i, _, rfl⟩ := hr
  exact fromParsed_consistent _ _ (consistent_good h).1 ((consistent_good h).2.take _)

theorem getRange_consistent {p : PP} (h : p.Consistent) :
    ∀ (k lo : Nat) (l : List PP), PP.getRange p.parentsGet lo k = .ok l → ∀ r ∈ l, r.Consistent
  | 0, lo, l, hl => by
    simp [PP.getRange] at hl
    subst hl
    simp
  | k + 1, lo, l, hl => by
    unfold PP.getRange at hl
    cases hg : p.parentsGet lo with
    | error e => simp [hg, bind, Except.bind] at hl
    | ok v =>
      cases hr : PP.getRange p.parentsGet (lo + 1) k with
      | error e => simp [hg, hr, bind, Except.bind] at hl
      | ok rest =>
        simp only [hg, hr, bind, Except.bind, pure, Except.pure, Except.ok.injEq] at hl
        subst hl
        intro r hmem
        rcases List.mem_cons.mp hmem with rfl | hmem
        · exact parentsGet_consistent h hg
        · exact getRange_consistent h k (lo + 1) rest hr r hmem

theorem parentsSlice_consistent {p : PP} (h : p.Consistent) {a b : Option Int} {l : List PP}
    (hl : p.parentsSlice a b = .ok l) : ∀ r ∈ l, r.Consistent := by
  unfold PP.parentsSlice at hl
  exact getRange_consistent h _ _ l hl

theorem wrapAll_consistent (h : Mach) : ∀ (l : List PP), (∀ r ∈ l, r.Consistent) →
    TP.wrapAll h l = .ok (l.map fun r => { host := h, path := r })
  | [], _ => rfl
  | r :: t, hc => by
    rw [TP.wrapAll, wrap_consistent h (hc r (by simp)),
      wrapAll_consistent h t (fun x hx => hc x (by simp [hx]))]
    rfl

/-- iterating `parent` -/
def iterParent : Nat → PP → PP
  | 0, p => p
  | n + 1, p => iterParent n p.parent

theorem iterParent_fromParsed (r : Str) : ∀ (k : Nat) (t : List Str), k ≤ t.length →
    iterParent k (PP.fromParsed r t) = PP.fromParsed r (t.take (t.length - k))
  | 0, t, _ => by simp [iterParent]
  | k + 1, t, h => by
    have hne : t ≠ [] := by intro e; subst e; simp at h
    have hp : (PP.fromParsed r t).parent = PP.fromParsed r t.dropLast := by
      simp [PP.parent, PP.fromParsed, hne]
    rw [iterParent, hp, iterParent_fromParsed r k t.dropLast (by simp; omega)]
    congr 1
    rw [List.dropLast_eq_take, List.take_take]
    simp only [List.length_take]
    congr 1
    omega

/-- `p.parents[i]` is `parent` applied `i + 1` times -/
theorem parentsGet_eq_iterParent (p : PP) (i : Nat) (h : i < p.tail.length) :
    p.parentsGet i = .ok (iterParent (i + 1) p) := by
  have hne : p.tail ≠ [] := by intro e; rw [e] at h; simp at h
  have hp : p.parent = PP.fromParsed p.root p.tail.dropLast := by simp [PP.parent, hne]
  rw [parentsGet_nat p i h, iterParent, hp,
    iterParent_fromParsed p.root i p.tail.dropLast (by simp; omega)]
  congr 2
  rw [List.dropLast_eq_take, List.take_take]
  simp only [List.length_take]
  congr 1
  omega


/-! ### the wrapper, operation by operation -/

/-- a tbot path on `h` holding the pathlib object `r` -/
abbrev lift (h : Mach) (r : PP) : TP := { host := h, path := r }

theorem tp_name (p : TP) : p.name = p.path.name := rfl
theorem tp_suffix (p : TP) : p.suffix = p.path.suffix := rfl
theorem tp_suffixes (p : TP) : p.suffixes = p.path.suffixes := rfl
theorem tp_stem (p : TP) : p.stem = p.path.stem := rfl
theorem tp_parts (p : TP) : p.parts = p.path.parts := rfl
theorem tp_isAbsolute (p : TP) : p.isAbsolute = p.path.isAbsolute := rfl
theorem tp_match (p : TP) (pat : Str) : p.match pat = p.path.match pat := rfl
theorem tp_parentsLen (p : TP) : p.parentsLen = p.path.parentsLen := rfl
theorem tp_cmp (p q : TP) : p.cmp q = p.path.cmp q.path := rfl

theorem tp_withName (p : TP) (hc : p.path.Consistent) (n : Str) :
    p.withName n = (p.path.withName n).map (lift p.host) := by
  unfold TP.withName
  cases hr : p.path.withName n with
  | error e => rfl
  | ok r =>
    simp only [bind, Except.bind, Except.map]
    exact wrap_consistent p.host (withName_consistent hc hr)

theorem tp_withStem (p : TP) (hc : p.path.Consistent) (st : Str) :
    p.withStem st = (p.path.withStem st).map (lift p.host) := by
  unfold TP.withStem PP.withStem
  cases hr : p.path.withName (st ++ p.path.suffix) with
  | error e => rfl
  | ok r =>
    simp only [bind, Except.bind, Except.map]
    exact wrap_consistent p.host (withName_consistent hc hr)

/-- in general the wrapper re-parses the result of `with_suffix` … -/
theorem tp_withSuffix_raw (p : TP) (s : Str) :
    p.withSuffix s = (p.path.withSuffix s).map (fun r => lift p.host (PP.ofRaw r.raw)) := by
  unfold TP.withSuffix
  cases hr : p.path.withSuffix s with
  | error e => rfl
  | ok r =>
    simp only [bind, Except.bind, Except.map]
    exact wrap_eq p.host r

/-- … which is pathlib's own result except for the quirk -/
theorem tp_withSuffix (p : TP) (hc : p.path.Consistent) (s : Str)
    (hq : ¬ (s = [] ∧ PP.stemOf p.path.name = ['.'])) :
    p.withSuffix s = (p.path.withSuffix s).map (lift p.host) := by
  unfold TP.withSuffix
  cases hr : p.path.withSuffix s with
  | error e => rfl
  | ok r =>
    simp only [bind, Except.bind, Except.map]
    exact wrap_consistent p.host (withSuffix_consistent hc hq hr)

theorem tp_parent (p : TP) (hc : p.path.Consistent) :
    p.parent = .ok (lift p.host p.path.parent) :=
  wrap_consistent p.host (parent_consistent hc)

theorem tp_parentsGet (p : TP) (hc : p.path.Consistent) (i : Int) :
    p.parentsGet i = (p.path.parentsGet i).map (lift p.host) := by
  unfold TP.parentsGet
  cases hr : p.path.parentsGet i with
  | error e => rfl
  | ok r =>
    simp only [bind, Except.bind, Except.map]
    exact wrap_consistent p.host (parentsGet_consistent hc hr)

theorem tp_parentsList (p : TP) (hc : p.path.Consistent) :
    p.parentsList = p.path.parentsList.map (List.map (lift p.host)) := by
  rw [parentsList_eq]
  unfold TP.parentsList
  rw [seqIter_eq p.parentsGet
    (fun i => lift p.host (PP.fromParsed p.path.root (p.path.tail.take (p.path.tail.length - i - 1))))
    p.path.tail.length
    (fun i hi => by rw [tp_parentsGet p hc, parentsGet_nat p.path i hi]; rfl)
    (by rw [tp_parentsGet p hc, parentsGet_oob p.path _ (Nat.le_refl _)]; rfl)
    p.path.tail.length 0 (by omega)]
  simp [Except.map, List.range_eq_range']

theorem tp_parentsSlice (p : TP) (hc : p.path.Consistent) (a b : Option Int) :
    p.parentsSlice a b = (p.path.parentsSlice a b).map (List.map (lift p.host)) := by
  unfold TP.parentsSlice
  cases hr : p.path.parentsSlice a b with
  | error e => rfl
  | ok l =>
    simp only [bind, Except.bind, Except.map]
    exact wrapAll_consistent p.host l (parentsSlice_consistent hc hr)

/-! #### arguments and the host check -/

/-- the argument is a tbot path of a machine that is not (a clone of) `host` -/
def TArg.foreign (host : Mach) : TArg → Bool
  | .t x => !(x.host.eq host)
  | _ => false

/-- the pathlib argument a wrapper argument is unwrapped to -/
def TArg.toPArg : TArg → PArg
  | .s x => .s x
  | .t x => .p x.path
  | .q x => .p x
  | .bad => .bad

/-- `_prepare_args_list`: `WrongHostError` iff some argument is a foreign path — whatever else is
    in the list —, otherwise the unwrapped arguments -/
theorem prepareArgs_eq (host : Mach) : ∀ (args : List TArg),
    TP.prepareArgs host args =
      if args.any (TArg.foreign host) then .error .wrongHost else .ok (args.map TArg.toPArg)
  | [] => rfl
  | a :: t => by
    have ih := prepareArgs_eq host t
    cases a with
    | s x => simp only [TP.prepareArgs, ih, List.any_cons, TArg.foreign, Bool.false_or]; split <;> rfl
    | q x => simp only [TP.prepareArgs, ih, List.any_cons, TArg.foreign, Bool.false_or]; split <;> rfl
    | bad => simp only [TP.prepareArgs, ih, List.any_cons, TArg.foreign, Bool.false_or]; split <;> rfl
    | t x =>
      simp only [TP.prepareArgs, ih, List.any_cons, TArg.foreign]
      by_cases hx : x.host.eq host = true
      · simp only [hx, Bool.not_true, Bool.false_eq_true, ↓reduceIte, Bool.false_or]
        split <;> rfl
      · simp [hx]

theorem prepareArgs_wrongHost_iff (host : Mach) (args : List TArg) :
    TP.prepareArgs host args = .error .wrongHost ↔
      ∃ x, TArg.t x ∈ args ∧ x.host.eq host = false := by
  rw [prepareArgs_eq]
  constructor
  · intro h
    split at h
    · rename_i hany
      obtain ⟨a, ha, hf⟩ := List.any_eq_true.mp hany
      cases a with
      | t x => exact ⟨x, ha, by simpa [TArg.foreign] using hf⟩
      | s x => simp [TArg.foreign] at hf
      | q x => simp [TArg.foreign] at hf
      | bad => simp [TArg.foreign] at hf
    · simp at h
  · rintro ⟨x, hx, hf⟩
    have : args.any (TArg.foreign host) = true :=
      List.any_eq_true.mpr ⟨_, hx, by simp [TArg.foreign, hf]⟩
    simp [this]

theorem tp_new (host : Mach) (args : List TArg) :
    TP.new host args = (TP.prepareArgs host args).bind fun a => (PP.new a).map (lift host) := by
  unfold TP.new
  cases TP.prepareArgs host args with
  | error e => rfl
  | ok a =>
    cases h : PP.new a with
    | error e => simp [bind, Except.bind, Except.map, h]
    | ok r => simp [bind, Except.bind, Except.map, h, pure, Except.pure]

theorem tp_joinpath (p : TP) (args : List TArg) :
    p.joinpath args =
      (TP.prepareArgs p.host args).bind fun a => (p.path.joinpath a).map (lift p.host) := by
  unfold TP.joinpath
  cases TP.prepareArgs p.host args with
  | error e => rfl
  | ok a =>
    cases h : p.path.joinpath a with
    | error e => simp [bind, Except.bind, Except.map, h]
    | ok r =>
      simp only [bind, Except.bind, Except.map, h]
      exact wrap_consistent p.host (new_consistent h)

theorem tp_truediv (p : TP) (key : TArg) :
    p.truediv key =
      (TP.prepareArgs p.host [key]).bind fun a => (p.path.joinpath a).map (lift p.host) :=
  tp_joinpath p [key]

/-- `key / p` for a key that is not a tbot path -/
theorem tp_rtruediv (p : TP) (key : TArg) (hk : TArg.foreign p.host key = false) :
    p.rtruediv key = (p.path.rtruediv key.toPArg).map (lift p.host) := by
  unfold TP.rtruediv
  rw [tp_new, prepareArgs_eq]
  have h2 : TArg.foreign p.host (.q p.path) = false := rfl
  simp only [List.any_cons, hk, h2, List.any_nil, Bool.or_self, Bool.false_eq_true,
    ↓reduceIte, List.map_cons, List.map_nil, Except.bind]
  rfl

theorem relativeTo_consistent {p r : PP} {a : List PArg} (h : p.relativeTo a = .ok r) :
    r.Consistent := by
  unfold PP.relativeTo at h
  split at h
  · simp at h
  · cases hn : PP.new a with
    | error e => simp [hn, bind, Except.bind] at h
    | ok o =>
      cases hi : p.isRelativeTo1 o with
      | error e => simp [hn, hi, bind, Except.bind] at h
      | ok b =>
        simp only [hn, hi, bind, Except.bind, pure, Except.pure] at h
        split at h
        · simp only [Except.ok.injEq] at h
          subst h
          exact ofRaw_consistent _
        · simp at h

theorem tp_relativeTo (p : TP) (args : List TArg) :
    p.relativeTo args =
      (TP.prepareArgs p.host args).bind fun a => (p.path.relativeTo a).map (lift p.host) := by
  unfold TP.relativeTo
  cases TP.prepareArgs p.host args with
  | error e => rfl
  | ok a =>
    cases h : p.path.relativeTo a with
    | error e => simp [bind, Except.bind, Except.map, h]
    | ok r =>
      simp only [bind, Except.bind, Except.map, h]
      exact wrap_consistent p.host (relativeTo_consistent h)

theorem collectRaw_exc (args : List PArg) (e : Exc) (h : PP.collectRaw args = .error e) :
    e = .typeError := by
  induction args with
  | nil => simp [PP.collectRaw] at h
  | cons a t ih =>
    cases a with
    | bad => simp [PP.collectRaw] at h; exact h.symm
    | s x =>
      simp only [PP.collectRaw, bind, Except.bind] at h
      cases hc : PP.collectRaw t with
      | error e' => rw [hc] at h; simp at h; subst h; exact ih hc
      | ok r => rw [hc] at h; simp [pure, Except.pure] at h
    | p x =>
      simp only [PP.collectRaw, bind, Except.bind] at h
      cases hc : PP.collectRaw t with
      | error e' => rw [hc] at h; simp at h; subst h; exact ih hc
      | ok r => rw [hc] at h; simp [pure, Except.pure] at h

theorem new_exc (args : List PArg) (e : Exc) (h : PP.new args = .error e) : e = .typeError := by
  unfold PP.new at h
  cases hc : PP.collectRaw args with
  | error e' =>
    simp only [hc, bind, Except.bind, Except.error.injEq] at h
    subst h
    exact collectRaw_exc args _ hc
  | ok r => simp [hc, bind, Except.bind, pure, Except.pure] at h

theorem isRelativeTo1_ok (p o : PP) : ∃ b, p.isRelativeTo1 o = .ok b := by
  unfold PP.isRelativeTo1
  simp only [parentsList_eq, bind, Except.bind, pure, Except.pure]
  split
  · exact ⟨_, rfl⟩
  · exact ⟨_, rfl⟩

/-- `is_relative_to` implemented through the exception of `relative_to` is pathlib's own
    `is_relative_to` -/
theorem relativeTo_isRelativeTo (p : PP) (a : List PArg) :
    (match p.relativeTo a with
      | .ok _ => Except.ok true
      | .error e => if e.isValueError then .ok false else .error e) = p.isRelativeTo a := by
  unfold PP.relativeTo PP.isRelativeTo
  cases a with
  | nil => rfl
  | cons x t =>
    simp only
    cases hn : PP.new (x :: t) with
    | error e =>
      have := new_exc _ _ hn
      subst this
      rfl
    | ok o =>
      obtain ⟨b, hb⟩ := isRelativeTo1_ok p o
      simp only [bind, Except.bind, hb, pure, Except.pure]
      cases b <;> rfl

theorem tp_isRelativeTo (p : TP) (args : List TArg) :
    p.isRelativeTo args = (TP.prepareArgs p.host args).bind fun a => p.path.isRelativeTo a := by
  unfold TP.isRelativeTo
  cases TP.prepareArgs p.host args with
  | error e => rfl
  | ok a =>
    simp only [bind, Except.bind]
    rw [← relativeTo_isRelativeTo]
    cases p.path.relativeTo a with
    | ok r => rfl
    | error e => cases e <;> rfl

/-! #### machines -/

theorem Mach.eq_refl (a : Mach) : a.eq a = true := by simp [Mach.eq]

theorem Mach.eq_symm (a b : Mach) : a.eq b = b.eq a := by
  simp only [Mach.eq]
  exact Bool.eq_iff_iff.mpr ⟨fun h => by simpa using (by simpa using h : a.origId = b.origId).symm,
    fun h => by simpa using (by simpa using h : b.origId = a.origId).symm⟩

theorem Mach.eq_trans {a b c : Mach} (h1 : a.eq b = true) (h2 : b.eq c = true) : a.eq c = true := by
  simp only [Mach.eq, beq_iff_eq] at *
  omega

/-- a clone equals the machine it was cloned from (and, by transitivity, all its clones) -/
theorem clone_eq (m : Mach) (k : Nat) : (m.clone k).eq m = true := by
  simp [Mach.eq, Mach.clone, Mach.origId]

/-! #### host-taking entry points -/

theorem atHost_eq (p : TP) (m : Mach) :
    p.atHost m = if p.host.eq m then .ok p.path.str else .error .wrongHost := by
  unfold TP.atHost
  cases p.host.eq m <;> rfl

theorem atHost_wrongHost_iff (p : TP) (m : Mach) :
    (p.atHost m = .error .wrongHost ↔ p.host.eq m = false) ∧
      (p.host.eq m = true → p.atHost m = .ok p.path.str) := by
  rw [atHost_eq]
  cases p.host.eq m <;> simp

theorem escape_wrongHost_iff (p : TP) (m : Mach) :
    (p.escape m = .error .wrongHost ↔ p.host.eq m = false) ∧
      (p.host.eq m = true → p.escape m = .ok (shQuote p.path.str)) := by
  unfold TP.escape
  rw [atHost_eq]
  cases p.host.eq m <;> simp [bind, Except.bind, pure, Except.pure]

theorem redir_wrongHost_iff (p : TP) (tok : Str) (both : Bool) (m : Mach) :
    (p.redir tok both m = .error .wrongHost ↔ p.host.eq m = false) ∧
      (p.host.eq m = true → p.redir tok both m =
        .ok (tok ++ shQuote p.path.str ++ (if both then " 2>&1".toList else []))) := by
  unfold TP.redir
  rw [atHost_eq]
  cases p.host.eq m <;> simp [bind, Except.bind, pure, Except.pure]

theorem authKey_wrongHost_iff (p : TP) (m : Option Mach) :
    (p.authKey m = .error .wrongHost ↔ ∃ h, m = some h ∧ p.host.eq h = false) ∧
      ((∀ h, m = some h → p.host.eq h = true) → p.authKey m = .ok p.path.str) := by
  unfold TP.authKey
  cases m with
  | none => simp [atHost_eq, Mach.eq_refl]
  | some h =>
    simp only [atHost_eq, Option.some.injEq, exists_eq_left', forall_eq']
    cases p.host.eq h <;> simp

/-- `Background(stdout=, stderr=)`: `WrongHostError` iff one of the given files is foreign -/
theorem background_wrongHost_iff (out err : Option TP) (m : Mach) :
    (TP.background out err m = .error .wrongHost ↔
      (∃ o, out = some o ∧ o.host.eq m = false) ∨ (∃ e, err = some e ∧ e.host.eq m = false)) ∧
    ∀ e, TP.background out err m = .error e → e = .wrongHost := by
  unfold TP.background
  cases out with
  | none =>
    cases err with
    | none => simp
    | some e =>
      simp only [atHost_eq]
      cases he : e.host.eq m <;> simp [bind, Except.bind, pure, Except.pure, he]
  | some o =>
    cases err with
    | none =>
      simp only [atHost_eq]
      cases ho : o.host.eq m <;> simp [bind, Except.bind, pure, Except.pure, ho]
    | some e =>
      simp only [atHost_eq]
      cases hoe : o.eq e with
      | true =>
        have hh : o.host.eq e.host = true := by
          simp only [TP.eq, Bool.and_eq_true] at hoe
          exact hoe.1
        cases ho : o.host.eq m with
        | true =>
          have : e.host.eq m = true := Mach.eq_trans (by rw [Mach.eq_symm]; exact hh) ho
          simp [bind, Except.bind, pure, Except.pure, ho, this]
        | false => simp [bind, Except.bind, ho]
      | false =>
        cases ho : o.host.eq m <;> cases he : e.host.eq m <;>
          simp [bind, Except.bind, pure, Except.pure, ho, he]

/-- equal paths have equal hashes -/
theorem tp_eq_hash (p q : TP) (h : p.eq q = true) : TPath.hashKey p = TPath.hashKey q := by
  simp only [TP.eq, Bool.and_eq_true, Mach.eq, PP.eq, beq_iff_eq] at h
  simp [TPath.hashKey, h.1, h.2]

end PathM
