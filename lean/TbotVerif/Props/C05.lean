import TbotVerif.Props.C04
namespace C05
theorem placeholder : True := trivial
end C05
