import TbotVerif.Props.C05Trace
import TbotVerif.Props.ChanCase
/-! C05 — "A registered death string aborts the read in which it completes, never earlier":
    the monitor of `Spec.c05` against the model, for whole cases. -/

namespace C05
open Chan Spec C03

/-! ### the monitor's registrations against the model's -/

/-- what the monitor knows about a registration: its string is admissible, and as long as it
    has not fired its string does not occur in the data received since the registration -/
def Inv (r : Reg) : Prop := PatOk r.pat ∧ (r.fired = false → r.pat.search r.since = none)

theorem span_split (s : Bytes) (a e : Nat) (h1 : a ≤ e) (h2 : e ≤ s.length) :
    s = s.take a ++ (s.drop a).take (e - a) ++ (s.drop a).drop (e - a)
      ∧ ((s.drop a).drop (e - a)).length = s.length - e := by
  refine ⟨?_, ?_⟩
  · rw [List.append_assoc, List.take_append_drop, List.take_append_drop]
  · simp only [List.length_drop]; omega

/-- if `_check` reported nothing, no registration that has not fired yet sees its string in the
    extended history (this is completeness, read backwards) -/
theorem no_new_occ (regs : List Reg) (b : Bytes) (r : Reg) (hr : r ∈ regs) (hinv : Inv r)
    (hf : r.fired = false) (hc : (chk (regs.map toDeath) b).1 = none) :
    r.pat.search (r.since ++ b) = none := by
  cases hs : r.pat.search (r.since ++ b) with
  | none => rfl
  | some v =>
    exfalso
    obtain ⟨a, e⟩ := v
    obtain ⟨hae, he, hocc⟩ := search_occ r.pat hinv.1 _ a e hs
    obtain ⟨hsplit, hylen⟩ := span_split (r.since ++ b) a e hae he
    generalize hu : ((r.since ++ b).drop a).take (e - a) = u at hocc hsplit
    generalize hy : ((r.since ++ b).drop a).drop (e - a) = y at hsplit hylen
    by_cases hcase : y.length < b.length
    · have := chk_complete regs b r hr hinv.1 _ u y hocc hsplit hcase
      rw [hc] at this; simp at this
    · have hA := append_cancel_right hsplit (by omega : b.length ≤ y.length)
      have hsome := occ_search r.pat hinv.1 u hocc ((r.since ++ b).take a) (y.take (y.length - b.length))
      rw [← hA, hinv.2 hf] at hsome
      simp at hsome

/-- a reported match is one the monitor accepts -/
theorem justified_of (regs : List Reg) (b : Bytes) (e : Nat) (m : Bytes) (hinv : ∀ r ∈ regs, Inv r)
    (h : (chk (regs.map toDeath) b).1 = some (e, m)) : justified (regs.map (ext b)) e m = true := by
  obtain ⟨r, hr, hexc, hocc⟩ := chk_sound regs b e m h
  obtain ⟨ho, x, y, heq⟩ := hocc (hinv r hr).1
  unfold justified
  rw [List.any_eq_true]
  refine ⟨ext b r, List.mem_map_of_mem hr, ?_⟩
  have h1 : (ext b r).occurs = true := by
    unfold Reg.occurs
    rw [ext_since, ext_pat, heq]
    exact occ_search r.pat (hinv r hr).1 m ho x y
  simp only [ext_exc, hexc, beq_self_eq_true, h1, Bool.true_and, ext_pat]
  cases hp : r.pat with
  | lit s =>
    rw [hp] at ho
    simp only [beq_iff_eq]
    exact occ_lit s m ho
  | re _ => rfl

theorem c05Walk_cons (res : OpRes) (d : Bytes) (ds : List Bytes) (regs : List Reg) :
    c05Walk res (d :: ds) regs =
      if (regs.map (ext d)).any (fun r => !r.fired && r.occurs) then
        (ds.isEmpty && (match deathOf res with
          | some (e, m) => justified (regs.map (ext d)) e m
          | none => false),
         (regs.map (ext d)).map fun r => { r with fired := r.fired || r.occurs })
      else if ds.isEmpty then
        ((match deathOf res with
          | some (e, m) => justified (regs.map (ext d)) e m
          | none => true), regs.map (ext d))
      else c05Walk res ds (regs.map (ext d)) := rfl

/-- **the monitor accepts every trace of the model** and stays in step with the rings -/
theorem walk (res : OpRes) : ∀ (bs : List Bytes) (regs : List Reg) (ds' : List Death) (f : Option (Nat × Bytes)),
    (∀ r ∈ regs, Inv r) → DTrace (regs.map toDeath) bs ds' f → deathOf res = f →
    ∃ regs', c05Walk res bs regs = (true, regs') ∧ ds' = regs'.map toDeath ∧ (∀ r ∈ regs', Inv r) := by
  intro bs
  induction bs with
  | nil =>
    intro regs ds' f hinv ht hd
    cases ht
    exact ⟨regs, by simp [c05Walk, hd], rfl, hinv⟩
  | cons d ds ih =>
    intro regs ds' f hinv ht hd
    cases ht with
    | ok _ _ _ _ _ hc hrest =>
      rw [chk_invariant] at hrest
      have hnew : ∀ r ∈ regs, r.fired = false → r.pat.search (r.since ++ d) = none :=
        fun r hr hf => no_new_occ regs d r hr (hinv r hr) hf hc
      have hdue : (regs.map (ext d)).any (fun r => !r.fired && r.occurs) = false := by
        rw [List.any_eq_false]
        intro r1 hr1
        obtain ⟨r, hr, rfl⟩ := List.mem_map.mp hr1
        cases hf : r.fired with
        | true => simp [hf]
        | false => simp [Reg.occurs, hnew r hr hf, hf]
      have hinv1 : ∀ r1 ∈ regs.map (ext d), Inv r1 := by
        intro r1 hr1
        obtain ⟨r, hr, rfl⟩ := List.mem_map.mp hr1
        exact ⟨(hinv r hr).1, fun hf => hnew r hr hf⟩
      rw [c05Walk_cons, hdue]
      simp only [Bool.false_eq_true, if_false]
      cases ds with
      | nil =>
        cases hrest
        rw [hd]
        exact ⟨_, rfl, rfl, hinv1⟩
      | cons d2 ds2 =>
        simp only [List.isEmpty_cons, Bool.false_eq_true, if_false]
        exact ih _ _ _ hinv1 hrest hd
    | fire _ _ x hc =>
      obtain ⟨e, m⟩ := x
      have hj := justified_of regs d e m hinv hc
      rw [c05Walk_cons, hd, chk_invariant]
      simp only [List.isEmpty_nil, Bool.true_and, if_true, hj]
      cases hdue : (regs.map (ext d)).any (fun r => !r.fired && r.occurs) with
      | true =>
        simp only [if_true]
        refine ⟨_, rfl, ?_, ?_⟩
        · simp only [List.map_map]
          exact List.map_congr_left (fun r _ => rfl)
        · intro r2 hr2
          obtain ⟨r1, hr1, rfl⟩ := List.mem_map.mp hr2
          obtain ⟨r, hr, rfl⟩ := List.mem_map.mp hr1
          refine ⟨(hinv r hr).1, fun hf => ?_⟩
          simp only [Bool.or_eq_false_iff] at hf
          have := hf.2
          unfold Reg.occurs at this
          cases hs : (ext d r).pat.search (ext d r).since with
          | none => rfl
          | some v => rw [hs] at this; simp at this
      | false =>
        simp only [Bool.false_eq_true, if_false]
        refine ⟨_, rfl, rfl, ?_⟩
        intro r1 hr1
        have hnd := (List.any_eq_false.mp hdue) r1 hr1
        obtain ⟨r, hr, rfl⟩ := List.mem_map.mp hr1
        refine ⟨(hinv r hr).1, fun hf => ?_⟩
        simp only [hf, Bool.not_false, Bool.true_and] at hnd
        unfold Reg.occurs at hnd
        cases hs : (ext d r).pat.search (ext d r).since with
        | none => rfl
        | some v => rw [hs] at hnd; simp at hnd

/-! ### operations -/

/-- the monitor and the model are in step -/
structure Rel (m : DeathMon) (r : RunSt) : Prop where
  deaths : r.st.deaths = m.regs.map toDeath
  frames : m.frames = r.deaths
  next : m.next = r.st.nextDeath
  inv : ∀ reg ∈ m.regs, Inv reg

/-- the death strings an operation registers are admissible -/
def opDeathOk : Op → Prop
  | .deathEnter p _ => PatOk p
  | .deathAdd p _ => PatOk p
  | _ => True

theorem deathOf_err (e : Exc) : deathOf (.err e) = excDeath e := by cases e <;> rfl

theorem deathOf_chunks (cs : List Bytes) (e : Option Exc) : deathOf (.chunks cs e) = e.bind excDeath := by
  cases e with
  | none => rfl
  | some e => cases e <;> rfl

/-- the run state an operation starts from inside `obsOp`: logs cut -/
def cutR (r : RunSt) : RunSt := { r with st := cut r.st }

/-- an admissible string does not occur in the empty history -/
theorem search_nil (p : Pat) (hp : PatOk p) : p.search [] = none := by
  cases hs : p.search [] with
  | none => rfl
  | some v =>
    obtain ⟨a, e⟩ := v
    obtain ⟨_, he, hocc⟩ := search_occ p hp [] a e hs
    exact absurd (by simp) (occ_ne p hp _ hocc)

/-- a read-type operation: the monitor walks the deliveries -/
theorem step_read (m : DeathMon) (r : RunSt) (op : Op) (hrel : Rel m r)
    (hnd : ∀ o, c05 m op o = ((c05Walk o.res (delivered o) m.regs).1,
      { m with regs := (c05Walk o.res (delivered o) m.regs).2 }))
    (hdt : DT (cut r.st) (runOp op (cutR r)).2.st (deathOf (runOp op (cutR r)).1))
    (hfr : (runOp op (cutR r)).2.deaths = r.deaths) :
    (c05 m op (obsOp op r).1).1 = true ∧ Rel (c05 m op (obsOp op r).1).2 (obsOp op r).2 := by
  obtain ⟨recs, hr, hn, ht⟩ := hdt
  have hreads : (obsOp op r).1.reads = recs := by
    show (runOp op (cutR r)).2.st.reads = recs
    rw [hr]; rfl
  have hdel : delivered (obsOp op r).1 = dataOf recs := by
    unfold delivered; rw [hreads]; rfl
  have hd0 : (cut r.st).deaths = m.regs.map toDeath := hrel.deaths
  rw [hd0] at ht
  obtain ⟨regs', hw, hds, hinv'⟩ := walk (obsOp op r).1.res (dataOf recs) m.regs _ _ hrel.inv ht rfl
  rw [hnd, hdel, hw]
  exact ⟨rfl, ⟨hds, hrel.frames.trans hfr.symm, hrel.next.trans hn.symm, hinv'⟩⟩

/-- an operation that neither reads nor touches the registrations -/
theorem step_quiet (m : DeathMon) (r : RunSt) (op : Op) (hrel : Rel m r)
    (hnd : ∀ o, c05 m op o = ((deathOf o.res).isNone, m))
    (hq : Quiet (cut r.st) (runOp op (cutR r)).2.st)
    (hres : deathOf (runOp op (cutR r)).1 = none)
    (hfr : (runOp op (cutR r)).2.deaths = r.deaths) :
    (c05 m op (obsOp op r).1).1 = true ∧ Rel (c05 m op (obsOp op r).1).2 (obsOp op r).2 := by
  rw [hnd]
  have hres' : deathOf (obsOp op r).1.res = none := hres
  rw [hres']
  refine ⟨rfl, ⟨?_, hrel.frames.trans hfr.symm, hrel.next.trans hq.2.2.symm, hrel.inv⟩⟩
  show (runOp op (cutR r)).2.st.deaths = _
  rw [hq.2.1]; exact hrel.deaths

theorem ofUnit_death (x : Res Unit) : deathOf (ofUnit x).1 = resDeath x.1 ∧ (ofUnit x).2 = x.2 := by
  obtain ⟨res, s⟩ := x
  cases res with
  | ok u => exact ⟨rfl, rfl⟩
  | error e => exact ⟨deathOf_err e, rfl⟩

/-- operations that change the set of registrations -/
def isDeathOp : Op → Bool
  | .deathEnter _ _ | .deathAdd _ _ | .deathExit => true
  | _ => false

/-- **SCOPING (1).**  An operation that is neither a read nor a registration / de-registration
    reads nothing, leaves the registrations (rings included) and the open `with` frames alone
    and never raises a death-string exception. -/
theorem runOp_quiet (r : RunSt) (op : Op) (h1 : isReadOp op = false) (h2 : isDeathOp op = false) :
    Quiet (cut r.st) (runOp op (cutR r)).2.st ∧ deathOf (runOp op (cutR r)).1 = none
      ∧ (runOp op (cutR r)).2.deaths = r.deaths := by
  cases op with
  | setPrompt p => exact ⟨⟨rfl, rfl, rfl⟩, rfl, rfl⟩
  | promptEnter p => exact ⟨⟨rfl, rfl, rfl⟩, rfl, rfl⟩
  | promptExit =>
    simp only [runOp, cutR]
    cases r.prompts <;> exact ⟨⟨rfl, rfl, rfl⟩, rfl, rfl⟩
  | setBlacklist b => exact ⟨⟨rfl, rfl, rfl⟩, rfl, rfl⟩
  | setSlow d c => exact ⟨⟨rfl, rfl, rfl⟩, rfl, rfl⟩
  | streamEnter id sp => exact ⟨⟨rfl, rfl, rfl⟩, rfl, rfl⟩
  | streamExit =>
    simp only [runOp, cutR]
    cases r.streams <;> exact ⟨⟨rfl, rfl, rfl⟩, rfl, rfl⟩
  | streamExitAt k =>
    simp only [runOp, cutR]
    cases List.find? (fun x => x.1 == k) r.streams <;> exact ⟨⟨rfl, rfl, rfl⟩, rfl, rfl⟩
  | sleep n => exact ⟨⟨rfl, rfl, rfl⟩, rfl, rfl⟩
  | write b ign =>
    have h := write_quiet b ign (cut r.st)
    have hu := ofUnit_death (write b ign (cut r.st))
    simp only [runOp, cutR, hu.1, hu.2]
    exact ⟨h.1, h.2, by first | rfl | trivial⟩
  | sendcontrol n =>
    have h := sendcontrol_quiet n (cut r.st)
    have hu := ofUnit_death (sendcontrol n (cut r.st))
    simp only [runOp, cutR, hu.1, hu.2]
    exact ⟨h.1, h.2, by first | rfl | trivial⟩
  | send b rb t ign =>
    cases rb with
    | true => simp [isReadOp] at h1
    | false =>
      have h := send_quiet b t ign (cut r.st)
      have hu := ofUnit_death (send b false t ign (cut r.st))
      simp only [runOp, cutR, hu.1, hu.2]
      exact ⟨h.1, h.2, by first | rfl | trivial⟩
  | sendline b rb t =>
    cases rb with
    | true => simp [isReadOp] at h1
    | false =>
      have h := send_quiet (b ++ [13]) t false (cut r.st)
      have hu := ofUnit_death (sendline b false t (cut r.st))
      simp only [runOp, cutR, hu.1, hu.2]
      exact ⟨h.1, h.2, by first | rfl | trivial⟩
  | read n t => simp [isReadOp] at h1
  | readIter mx t k => simp [isReadOp] at h1
  | readline e t => simp [isReadOp] at h1
  | expect ps t => simp [isReadOp] at h1
  | rup p t => simp [isReadOp] at h1
  | rut t => simp [isReadOp] at h1
  | deathEnter p e => simp [isDeathOp] at h2
  | deathAdd p e => simp [isDeathOp] at h2
  | deathExit => simp [isDeathOp] at h2

/-- **every read-type operation funnels every delivered piece through `_check` exactly once**,
    in order, stops at the first delivery for which `_check` reports a match, and raises
    exactly that match (`DT` / `DTrace`); the open `with` frames are left alone. -/
theorem runOp_read (r : RunSt) (op : Op) (h1 : isReadOp op = true) :
    DT (cut r.st) (runOp op (cutR r)).2.st (deathOf (runOp op (cutR r)).1)
      ∧ (runOp op (cutR r)).2.deaths = r.deaths := by
  cases op with
  | send b rb t ign =>
    cases rb with
    | false => simp [isReadOp] at h1
    | true =>
      have hu := ofUnit_death (send b true t ign (cut r.st))
      have h := send_dt b true t ign (cut r.st)
      simp only [runOp, cutR, hu.1, hu.2]
      exact ⟨h, by first | rfl | trivial⟩
  | sendline b rb t =>
    cases rb with
    | false => simp [isReadOp] at h1
    | true =>
      have hu := ofUnit_death (sendline b true t (cut r.st))
      have h := send_dt (b ++ [13]) true t false (cut r.st)
      simp only [runOp, cutR, hu.1, hu.2]
      exact ⟨h, by first | rfl | trivial⟩
  | read n t =>
    have h := read_dt n t (cut r.st)
    simp only [runOp, cutR]
    generalize Chan.read n t (cut r.st) = out at h
    obtain ⟨res, s'⟩ := out
    cases res with
    | ok b => exact ⟨h, by first | rfl | trivial⟩
    | error e => exact ⟨by rw [deathOf_err]; exact h, by first | rfl | trivial⟩
  | readIter mx t k =>
    have h := riTake_dt (fuelFor (cut r.st)) k (riStart mx t (cut r.st)) (cut r.st) []
    simp only [runOp, cutR, deathOf_chunks]
    exact ⟨h, by first | rfl | trivial⟩
  | readline e t =>
    have h := readlineLoop_dt (fuelFor (cut r.st)) e [] (cut r.st).now t (cut r.st)
    simp only [runOp, cutR, readline]
    generalize readlineLoop (fuelFor (cut r.st)) e [] (cut r.st).now t (cut r.st) = out at h
    obtain ⟨res, s'⟩ := out
    cases res with
    | ok b => exact ⟨h, by first | rfl | trivial⟩
    | error e => exact ⟨by rw [deathOf_err]; exact h, by first | rfl | trivial⟩
  | expect ps t =>
    have h := expectLoop_dt (fuelFor (cut r.st)) ps [] (riStart none t (cut r.st)) (cut r.st)
    simp only [runOp, cutR, expect]
    generalize expectLoop (fuelFor (cut r.st)) ps [] (riStart none t (cut r.st)) (cut r.st) = out at h
    obtain ⟨res, s'⟩ := out
    cases res with
    | ok b => exact ⟨h, by first | rfl | trivial⟩
    | error e => exact ⟨by rw [deathOf_err]; exact h, by first | rfl | trivial⟩
  | rup p t =>
    have h := readUntilPrompt_dt p t (cut r.st)
    simp only [runOp, cutR]
    generalize readUntilPrompt p t (cut r.st) = out at h
    obtain ⟨res, s'⟩ := out
    cases res with
    | ok b => exact ⟨h, by first | rfl | trivial⟩
    | error e => exact ⟨by rw [deathOf_err]; exact h, by first | rfl | trivial⟩
  | rut t =>
    have h := readUntilTimeout_dt t (cut r.st)
    simp only [runOp, cutR]
    generalize readUntilTimeout t (cut r.st) = out at h
    obtain ⟨res, s'⟩ := out
    cases res with
    | ok b => exact ⟨h, by first | rfl | trivial⟩
    | error e => exact ⟨by rw [deathOf_err]; exact h, by first | rfl | trivial⟩
  | setPrompt p => simp [isReadOp] at h1
  | promptEnter p => simp [isReadOp] at h1
  | promptExit => simp [isReadOp] at h1
  | setBlacklist b => simp [isReadOp] at h1
  | setSlow d c => simp [isReadOp] at h1
  | streamEnter id sp => simp [isReadOp] at h1
  | streamExit => simp [isReadOp] at h1
  | streamExitAt k => simp [isReadOp] at h1
  | sleep n => simp [isReadOp] at h1
  | write b ign => simp [isReadOp] at h1
  | sendcontrol n => simp [isReadOp] at h1
  | deathEnter p e => simp [isReadOp] at h1
  | deathAdd p e => simp [isReadOp] at h1
  | deathExit => simp [isReadOp] at h1

/-- **SCOPING (2).**  `with_death_string` entry / `add_death_string` add one registration with
    an empty ring (and a fresh id) in front; nothing else changes. -/
theorem deathEnter_deaths (p : Pat) (e : Nat) (s : St) :
    (Chan.deathEnter p e s).1 = s.nextDeath
      ∧ (Chan.deathEnter p e s).2.deaths = { id := s.nextDeath, pat := p, exc := e, ring := [] } :: s.deaths
      ∧ (Chan.deathEnter p e s).2.nextDeath = s.nextDeath + 1 := ⟨rfl, rfl, rfl⟩

/-- **SCOPING (3).**  `with_death_string` exit removes exactly its own registration; the rings
    of the others are untouched. -/
theorem deathExit_deaths (id : Nat) (s : St) :
    (Chan.deathExit id s).deaths = s.deaths.filter (·.id != id)
      ∧ (Chan.deathExit id s).nextDeath = s.nextDeath := ⟨rfl, rfl⟩

theorem c05_of_read (m : DeathMon) (op : Op) (h1 : isReadOp op = true) (o : OpObs) :
    c05 m op o = ((c05Walk o.res (delivered o) m.regs).1,
      { m with regs := (c05Walk o.res (delivered o) m.regs).2 }) := by
  cases op with
  | send b rb t ign => cases rb with
    | false => simp [isReadOp] at h1
    | true => rfl
  | sendline b rb t => cases rb with
    | false => simp [isReadOp] at h1
    | true => rfl
  | read n t => rfl
  | readIter mx t k => rfl
  | readline e t => rfl
  | expect ps t => rfl
  | rup p t => rfl
  | rut t => rfl
  | setPrompt p => simp [isReadOp] at h1
  | promptEnter p => simp [isReadOp] at h1
  | promptExit => simp [isReadOp] at h1
  | setBlacklist b => simp [isReadOp] at h1
  | setSlow d c => simp [isReadOp] at h1
  | streamEnter id sp => simp [isReadOp] at h1
  | streamExit => simp [isReadOp] at h1
  | streamExitAt k => simp [isReadOp] at h1
  | sleep n => simp [isReadOp] at h1
  | write b ign => simp [isReadOp] at h1
  | sendcontrol n => simp [isReadOp] at h1
  | deathEnter p e => simp [isReadOp] at h1
  | deathAdd p e => simp [isReadOp] at h1
  | deathExit => simp [isReadOp] at h1

theorem c05_of_quiet (m : DeathMon) (op : Op) (h1 : isReadOp op = false) (h2 : isDeathOp op = false) (o : OpObs) :
    c05 m op o = ((deathOf o.res).isNone, m) := by
  cases op with
  | send b rb t ign => cases rb with
    | true => simp [isReadOp] at h1
    | false => rfl
  | sendline b rb t => cases rb with
    | true => simp [isReadOp] at h1
    | false => rfl
  | read n t => simp [isReadOp] at h1
  | readIter mx t k => simp [isReadOp] at h1
  | readline e t => simp [isReadOp] at h1
  | expect ps t => simp [isReadOp] at h1
  | rup p t => simp [isReadOp] at h1
  | rut t => simp [isReadOp] at h1
  | setPrompt p => rfl
  | promptEnter p => rfl
  | promptExit => rfl
  | setBlacklist b => rfl
  | setSlow d c => rfl
  | streamEnter id sp => rfl
  | streamExit => rfl
  | streamExitAt k => rfl
  | sleep n => rfl
  | write b ign => rfl
  | sendcontrol n => rfl
  | deathEnter p e => simp [isDeathOp] at h2
  | deathAdd p e => simp [isDeathOp] at h2
  | deathExit => simp [isDeathOp] at h2

/-- **one operation**: the monitor accepts the observation of the model and stays in step -/
theorem c05_step (m : DeathMon) (r : RunSt) (op : Op) (hrel : Rel m r) (hop : opDeathOk op) :
    (c05 m op (obsOp op r).1).1 = true ∧ Rel (c05 m op (obsOp op r).1).2 (obsOp op r).2 := by
  cases hread : isReadOp op with
  | true =>
    have h := runOp_read r op hread
    exact step_read m r op hrel (c05_of_read m op hread) h.1 h.2
  | false =>
  cases hdeath : isDeathOp op with
  | false =>
    have h := runOp_quiet r op hread hdeath
    exact step_quiet m r op hrel (c05_of_quiet m op hread hdeath) h.1 h.2.1 h.2.2
  | true =>
  cases op with
  | deathEnter p e =>
    refine ⟨rfl, ⟨?_, ?_, ?_, ?_⟩⟩
    · show _ :: (cut r.st).deaths = _
      simp only [c05, List.map_cons, toDeath, lastN_nil, hrel.next]
      congr 1
      exact hrel.deaths
    · show _ :: m.frames = _ :: r.deaths
      rw [hrel.frames, hrel.next]
    · show m.next + 1 = r.st.nextDeath + 1
      rw [hrel.next]
    · intro reg hreg
      rcases List.mem_cons.mp hreg with rfl | hreg
      · exact ⟨hop, fun _ => search_nil p hop⟩
      · exact hrel.inv reg hreg
  | deathAdd p e =>
    refine ⟨rfl, ⟨?_, hrel.frames, ?_, ?_⟩⟩
    · show _ :: (cut r.st).deaths = _
      simp only [c05, List.map_cons, toDeath, lastN_nil, hrel.next]
      congr 1
      exact hrel.deaths
    · show m.next + 1 = r.st.nextDeath + 1
      rw [hrel.next]
    · intro reg hreg
      rcases List.mem_cons.mp hreg with rfl | hreg
      · exact ⟨hop, fun _ => search_nil p hop⟩
      · exact hrel.inv reg hreg
  | deathExit =>
    have hfr := hrel.frames
    cases hd : r.deaths with
    | nil =>
      rw [hd] at hfr
      have hobs : (obsOp .deathExit r).2 = { cutR r with deaths := [] } := by
        simp only [obsOp, runOp, hd]; rfl
      have hc : ∀ o, c05 m .deathExit o = (true, m) := by
        intro o; simp only [c05, hfr]
      rw [hc, hobs]
      exact ⟨rfl, ⟨hrel.deaths, hfr, hrel.next, hrel.inv⟩⟩
    | cons id rest =>
      rw [hd] at hfr
      have hobs : (obsOp .deathExit r).2 = { r with st := Chan.deathExit id (cut r.st), deaths := rest } := by
        simp only [obsOp, runOp, hd]; rfl
      have hc : ∀ o, c05 m .deathExit o = (true, { m with regs := m.regs.filter (·.id != id), frames := rest }) := by
        intro o; simp only [c05, hfr]
      rw [hc, hobs]
      refine ⟨rfl, ⟨?_, rfl, hrel.next, ?_⟩⟩
      · show (cut r.st).deaths.filter (·.id != id) = _
        have : (cut r.st).deaths = m.regs.map toDeath := hrel.deaths
        rw [this, List.filter_map]
        rfl
      · intro reg hreg
        exact hrel.inv reg (List.mem_filter.mp hreg).1
  | setPrompt p => simp [isDeathOp] at hdeath
  | promptEnter p => simp [isDeathOp] at hdeath
  | promptExit => simp [isDeathOp] at hdeath
  | setBlacklist b => simp [isDeathOp] at hdeath
  | setSlow d c => simp [isDeathOp] at hdeath
  | streamEnter id sp => simp [isDeathOp] at hdeath
  | streamExit => simp [isDeathOp] at hdeath
  | streamExitAt k => simp [isDeathOp] at hdeath
  | sleep n => simp [isDeathOp] at hdeath
  | write b ign => simp [isDeathOp] at hdeath
  | sendcontrol n => simp [isDeathOp] at hdeath
  | send b rb t ign => simp [isDeathOp] at hdeath
  | sendline b rb t => simp [isDeathOp] at hdeath
  | read n t => simp [isDeathOp] at hdeath
  | readIter mx t k => simp [isDeathOp] at hdeath
  | readline e t => simp [isDeathOp] at hdeath
  | expect ps t => simp [isDeathOp] at hdeath
  | rup p t => simp [isDeathOp] at hdeath
  | rut t => simp [isDeathOp] at hdeath

/-! ### `Channel._check` on a channel state (the ring-buffer theorem) -/

/-- **INVARIANT.**  If every registration's ring equals the last `min (2 * pat.len) |since|`
    bytes of the data `since` received since its registration (`s.deaths = regs.map toDeath`),
    then after `_check incoming` every ring equals the last `min (2 * pat.len) |since ++ incoming|`
    bytes of `since ++ incoming` — whether or not a match was found (all windows are processed);
    ids, strings and exception tags are unchanged. -/
theorem check_invariant (regs : List Reg) (s : St) (incoming : Bytes) (h : s.deaths = regs.map toDeath) :
    (check incoming s).2.deaths = (regs.map (ext incoming)).map toDeath := by
  rw [(check_deaths incoming s).1, h, chk_invariant]

/-- **COMPLETENESS.**  If the string of some registration (admissible: non-empty literal, or
    anchor-free non-nullable regex) occurs in `since ++ incoming` with an occurrence `u` that
    ends inside `incoming`, then `_check incoming` raises a death-string exception. -/
theorem check_complete (regs : List Reg) (s : St) (incoming : Bytes) (h : s.deaths = regs.map toDeath)
    (r : Reg) (hr : r ∈ regs) (hp : PatOk r.pat) (x u y : Bytes) (hu : Occ r.pat u)
    (heq : r.since ++ incoming = x ++ u ++ y) (hy : y.length < incoming.length) :
    ∃ e m, (check incoming s).1 = .error (.death e m) := by
  have hc := chk_complete regs incoming r hr hp x u y hu heq hy
  rw [check_eq, h]
  cases hv : (chk (regs.map toDeath) incoming).1 with
  | none => rw [hv] at hc; simp at hc
  | some v => exact ⟨v.1, v.2, rfl⟩

/-- completeness for a literal death string `p` (length ≥ 1) -/
theorem check_complete_lit (regs : List Reg) (s : St) (incoming : Bytes) (h : s.deaths = regs.map toDeath)
    (r : Reg) (hr : r ∈ regs) (p : Bytes) (hpat : r.pat = .lit p) (hne : p ≠ []) (x y : Bytes)
    (heq : r.since ++ incoming = x ++ p ++ y) (hy : y.length < incoming.length) :
    ∃ e m, (check incoming s).1 = .error (.death e m) :=
  check_complete regs s incoming h r hr (by rw [hpat]; exact hne) x p y (by rw [hpat]; rfl) heq hy

/-- **SOUNDNESS.**  If `_check incoming` raises `.death e m` then some registration with
    exception tag `e` has its string occurring in its `since ++ incoming`, and `m` is that
    occurrence. -/
theorem check_sound (regs : List Reg) (s : St) (incoming : Bytes) (h : s.deaths = regs.map toDeath)
    (e : Nat) (m : Bytes) (hc : (check incoming s).1 = .error (.death e m)) :
    ∃ r ∈ regs, r.exc = e ∧ (PatOk r.pat → Occ r.pat m ∧ ∃ x y, r.since ++ incoming = x ++ m ++ y) := by
  have h1 := check_res incoming s
  rw [hc, h] at h1
  exact chk_sound regs incoming e m h1.symm

/-- soundness when the registrations are non-empty literals: `m` is the string itself -/
theorem check_sound_lit (regs : List Reg) (s : St) (incoming : Bytes) (h : s.deaths = regs.map toDeath)
    (hlit : ∀ r ∈ regs, ∃ p, r.pat = .lit p ∧ p ≠ [])
    (e : Nat) (m : Bytes) (hc : (check incoming s).1 = .error (.death e m)) :
    ∃ r ∈ regs, r.exc = e ∧ r.pat = .lit m ∧ ∃ x y, r.since ++ incoming = x ++ m ++ y := by
  obtain ⟨r, hr, he, hocc⟩ := check_sound regs s incoming h e m hc
  obtain ⟨p, hp, hne⟩ := hlit r hr
  obtain ⟨ho, hxy⟩ := hocc (by rw [hp]; exact hne)
  rw [hp] at ho
  have : m = p := occ_lit p m ho
  subst this
  exact ⟨r, hr, he, hp, hxy⟩

/-! ### whole cases -/

theorem run_spec : ∀ (ops : List Op) (m : DeathMon) (r : RunSt), Rel m r → (∀ op ∈ ops, opDeathOk op) →
    foldOpsM c05 m ops (runOps ops r).1 = true := by
  intro ops
  induction ops with
  | nil => intro m r _ _; rfl
  | cons op ops ih =>
    intro m r hrel hops
    obtain ⟨h1, h2⟩ := c05_step m r op hrel (hops op (List.mem_cons_self ..))
    rw [(ChanCase.runOps_cons op ops r).1]
    simp only [foldOpsM, h1, Bool.true_and]
    exact ih _ _ h2 (fun o ho => hops o (List.mem_cons_of_mem _ ho))

theorem rel_init (c : Case) : Rel {} (initSt c) := ⟨rfl, rfl, rfl, fun _ h => by simp at h⟩

/-- **C05 (whole case)** for admissible death strings (`PatOk`): non-empty literals, and
    anchor-free regexes that do not match the empty word. -/
theorem case_spec_ok (c : Case) (h : ∀ op ∈ c.ops, opDeathOk op) : Spec.C05 c (Chan.run c) = true := by
  unfold Spec.C05 Chan.run
  simp only
  exact run_spec c.ops {} (initSt c) (rel_init c) h

/-! ### decidable side conditions -/

/-- admissible death strings, decidably: a non-empty literal, or a regex without `\Z` that does
    not match the empty input -/
def patOkB : Pat → Bool
  | .lit b => !b.isEmpty
  | .re r => r.noEos && (r.search []).isNone

theorem patOk_of (p : Pat) (h : patOkB p = true) : PatOk p := by
  cases p with
  | lit b => simpa [patOkB, PatOk] using h
  | re r =>
    simp only [patOkB, Bool.and_eq_true] at h
    refine ⟨h.1, fun hl => ?_⟩
    have := Re.search_complete r h.1 [] [] [] hl
    simp only [List.append_nil] at this
    cases hs : r.search [] with
    | none => rw [hs] at this; simp at this
    | some v => rw [hs] at h; simp at h

def deathOpOk : Op → Bool
  | .deathEnter p _ | .deathAdd p _ => patOkB p
  | _ => true

def litOpOk : Op → Bool
  | .deathEnter (.lit b) _ | .deathAdd (.lit b) _ => !b.isEmpty
  | .deathEnter (.re _) _ | .deathAdd (.re _) _ => false
  | _ => true

theorem opDeathOk_of (op : Op) (h : deathOpOk op = true) : opDeathOk op := by
  cases op with
  | deathEnter p e => exact patOk_of p h
  | deathAdd p e => exact patOk_of p h
  | _ => trivial

theorem deathOpOk_of_lit (op : Op) (h : litOpOk op = true) : deathOpOk op = true := by
  cases op with
  | deathEnter p e => cases p with
    | lit b => exact h
    | re r => simp [litOpOk] at h
  | deathAdd p e => cases p with
    | lit b => exact h
    | re r => simp [litOpOk] at h
  | _ => rfl

/-- **C05 (whole case).**  For every case — any script, chunk size, timeouts, any interleaving
    of reads, writes, prompt / stream / death-string scopes — whose death strings are
    non-empty literals or anchor-free regexes that do not match the empty input: a registered
    death string aborts the read in which its first occurrence completes, never earlier, with
    the exception of a string that has occurred, and never after its scope was left. -/
theorem case_spec (c : Case) (h : c.ops.all deathOpOk = true) : Spec.C05 c (Chan.run c) = true :=
  case_spec_ok c (fun op hop => opDeathOk_of op (List.all_eq_true.mp h op hop))

/-- **C05 (whole case), literal death strings of length ≥ 1.** -/
theorem case_spec_lit (c : Case) (h : c.ops.all litOpOk = true) : Spec.C05 c (Chan.run c) = true :=
  case_spec c (List.all_eq_true.mpr fun op hop => deathOpOk_of_lit op (List.all_eq_true.mp h op hop))

/-! ### non-vacuity -/

/-- the F4 witness: string "AB", one piece "xxxABxxx" (the occurrence straddles two scan windows) -/
def f4Case : Case :=
  { chunk := 4096, slice := 64, script := [⟨0, [120, 120, 120, 65, 66, 120, 120, 120]⟩], accept := [],
    ops := [.deathEnter (.lit [65, 66]) 7, .read none (some 1), .deathExit] }

example : f4Case.ops.all litOpOk = true := by decide

/-- … on which the model does raise, in the read that delivers the piece -/
example : ((Chan.run f4Case).1.map (·.res) == [.unit, .err (.death 7 [65, 66]), .unit]) = true := by decide

example : Spec.C05 f4Case (Chan.run f4Case) = true := case_spec_lit f4Case (by decide)

/-- the hypotheses of `check_complete` are satisfiable: "x" was received since the registration
    of "AB", then "xxABxxx" arrives — the windows are "xx", "AB", "xx", "x" but the ring also
    works when the occurrence is cut: see `f4Case`, where the windows are "xx", "xA", "Bx", "xx" -/
def f4Reg : Reg := { id := 0, pat := .lit [65, 66], exc := 7, since := [120] }

example : ∃ e m, (check [120, 120, 65, 66, 120, 120, 120] { deaths := [toDeath f4Reg] }).1
    = .error (.death e m) :=
  check_complete [f4Reg] { deaths := [toDeath f4Reg] } [120, 120, 65, 66, 120, 120, 120] rfl f4Reg
    (List.mem_singleton.mpr rfl) (by simp [PatOk, f4Reg]) [120, 120, 120] [65, 66] [120, 120, 120] rfl rfl
    (by decide)

/-- a regex death string `A[Bx]` is admissible -/
example : patOkB (.re (.seq (Re.lit1 65) (.cls false [(66, 66), (120, 120)]))) = true := by decide

/-! ### the side conditions are necessary (`Spec.C05` is false on the model otherwise) -/

/-- an end-anchored regex `A\Z` matches in a ring that is the history up to a scan window, but
    not in the data of the whole delivery: the model raises, the monitor finds no occurrence -/
def eosCase : Case :=
  { chunk := 8, slice := 64, script := [⟨0, [120, 65, 66]⟩], accept := [],
    ops := [.deathEnter (.re (.seq (Re.lit1 65) .eos)) 7, .read none (some 1)] }

example : Spec.C05 eosCase (Chan.run eosCase) = false := by decide

/-- a regex that matches the empty word (`A?`) "occurs" in an empty delivery (`read(0)`), but
    `_check` scans no window of an empty delivery -/
def nullCase : Case :=
  { chunk := 8, slice := 64, script := [⟨0, [120, 65, 66]⟩], accept := [],
    ops := [.deathEnter (.re (.rep (Re.lit1 65) 0 1)) 7, .read (some 0) (some 1)] }

example : Spec.C05 nullCase (Chan.run nullCase) = false := by decide

/-- the same for the empty literal -/
def emptyLitCase : Case :=
  { chunk := 8, slice := 64, script := [⟨0, [120, 65, 66]⟩], accept := [],
    ops := [.deathEnter (.lit []) 7, .read (some 0) (some 1)] }

example : Spec.C05 emptyLitCase (Chan.run emptyLitCase) = false := by decide


end C05
