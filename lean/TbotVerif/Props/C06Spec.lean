import TbotVerif.Props.C06Loops
/-! C06 — from `Timed` to the clauses of `Spec.c06`.  The Spec is cut into four named clauses
    (`cl1` = `Spec.readsTimed`, `cl2`, `cl3`, `cl4`), each of which follows from one field of
    `Timed`. -/

namespace C06
open Chan Spec

/-- clause 2 of `Spec.c06`: a `TimeoutError` needs a timeout and comes exactly at the deadline;
    anything else comes no later -/
def cl2 (slow : Bool) (res : OpRes) (T : Option Nat) (t0 t1 : Nat) : Bool :=
  match res, T with
  | .err .timeout, none => false
  | .err .timeout, some T => slow || t1 == t0 + T
  | _, none => true
  | _, some T => slow || t1 ≤ t0 + T

/-- clause 3 of `Spec.c06`: a result other than a time-out is returned at the moment of the
    last delivery -/
def cl3 (slow : Bool) (res : OpRes) (t0 t1 : Nat) (reads : List ReadRec) : Bool :=
  match res with
  | .err .timeout => true
  | _ => slow || (match reads.getLast? with
            | none => t1 == t0
            | some r => r.t1 == t1)

/-- clause 4 of `Spec.c06`: `read_until_timeout` never raises `TimeoutError` and ends exactly at
    the deadline -/
def cl4 (op : Op) (res : OpRes) (t0 t1 : Nat) : Bool :=
  match op, res with
  | .rut (some T), .text _ => t1 == t0 + T
  | .rut _, .err .timeout => false
  | _, _ => true

theorem c06_split (cfg : Cfg) (op : Op) (o : OpObs) (T : Option Nat) (hT : timeoutOf op = some T) :
    Spec.c06 cfg op o =
      (readsTimed T o.t0 o.reads && cl2 cfg.slowDelay.isSome o.res T o.t0 o.t1
        && cl3 cfg.slowDelay.isSome o.res o.t0 o.t1 o.reads && cl4 op o.res o.t0 o.t1) := by
  unfold Spec.c06
  rw [hT]
  rfl

theorem cl1_true (t0 : Nat) (T : Option Nat) (recs : List ReadRec) (h : ∀ r ∈ recs, RecOk t0 T r) :
    readsTimed T t0 recs = true := by
  unfold readsTimed
  rw [List.all_eq_true]
  intro r hr
  have hk := h r hr
  cases T with
  | none => simp [hk.none rfl]
  | some T' =>
    obtain ⟨h1, h2⟩ := hk.some T' rfl
    simp only [Bool.and_eq_true, decide_eq_true_eq, beq_iff_eq]
    exact ⟨⟨h1, h2⟩, hk.ge⟩

theorem cl2_true (slow : Bool) (res : OpRes) (T : Option Nat) (t0 t1 : Nat)
    (htmo : res = .err .timeout → ∃ T', T = some T' ∧ (slow = false → t1 = t0 + T'))
    (hdead : slow = false → ∀ T', T = some T' → t1 ≤ t0 + T') :
    cl2 slow res T t0 t1 = true := by
  by_cases h : res = .err .timeout
  · obtain ⟨T', hT, h'⟩ := htmo h
    subst h; subst hT
    cases slow with
    | true => simp [cl2]
    | false => simp [cl2, h' rfl]
  · have key : cl2 slow res T t0 t1 = (match T with
        | none => true
        | some T' => slow || decide (t1 ≤ t0 + T')) := by
      cases res with
      | err e =>
        cases e with
        | timeout => exact absurd rfl h
        | _ => cases T <;> rfl
      | _ => cases T <;> rfl
    rw [key]
    cases T with
    | none => rfl
    | some T' =>
      cases slow with
      | true => rfl
      | false => simpa using hdead rfl T' rfl

theorem cl3_true (slow : Bool) (res : OpRes) (t0 t1 : Nat) (reads : List ReadRec)
    (h : slow = false → lastT1 t0 reads = t1) : cl3 slow res t0 t1 reads = true := by
  have key : (slow || (match reads.getLast? with
            | none => t1 == t0
            | some r => r.t1 == t1)) = true := by
    cases slow with
    | true => rfl
    | false =>
      have := h rfl
      unfold lastT1 at this
      cases hg : reads.getLast? with
      | none => rw [hg] at this; simp [this]
      | some r => rw [hg] at this; simpa using this
  unfold cl3
  cases res with
  | err e =>
    cases e with
    | timeout => rfl
    | _ => exact key
  | _ => exact key

theorem cl4_true (op : Op) (res : OpRes) (t0 t1 : Nat)
    (h : ∀ t, op = .rut t → res ≠ .err .timeout ∧ ∀ T x, t = some T → res = .text x → t1 = t0 + T) :
    cl4 op res t0 t1 = true := by
  cases op with
  | rut t =>
    obtain ⟨h1, h2⟩ := h t rfl
    cases res with
    | err e =>
      cases e with
      | timeout => exact absurd rfl h1
      | _ => cases t <;> rfl
    | text x =>
      cases t with
      | none => rfl
      | some T => simpa [cl4] using h2 T x rfl rfl
    | _ => cases t <;> rfl
  | _ => rfl

/-- **From `Timed` to the Spec.**  `b` is the time-out flag of the code that ran between `s`
    and `s'`; `q` must hold when slow sending is off, and unconditionally for
    `read_until_timeout` (whose exact end is not exempted by the Spec). -/
theorem c06_of_timed {q : Prop} (cfg : Cfg) (op : Op) (T : Option Nat) (o : OpObs) (s s' : St) (b : Bool)
    (hT : timeoutOf op = some T)
    (ht : Timed q s.now T s s' o.reads b)
    (h0 : o.t0 = s.now) (h1 : o.t1 = s'.now)
    (hq : cfg.slowDelay = none → q)
    (hres : o.res = .err .timeout → b = true)
    (hrut : ∀ t, op = .rut t → q ∧ o.res ≠ .err .timeout ∧ (∀ x, o.res = .text x → b = true)) :
    Spec.c06 cfg op o = true := by
  have hslow : cfg.slowDelay.isSome = false → q := by
    intro h
    apply hq
    cases hs : cfg.slowDelay with
    | none => rfl
    | some d => rw [hs] at h; simp at h
  rw [c06_split cfg op o T hT]
  simp only [Bool.and_eq_true]
  refine ⟨⟨⟨?_, ?_⟩, ?_⟩, ?_⟩
  · rw [h0]; exact cl1_true _ _ _ ht.recOk
  · apply cl2_true
    · intro hr
      obtain ⟨T', hT', hle⟩ := ht.tmo (hres hr)
      refine ⟨T', hT', fun hs => ?_⟩
      have := ht.dead (hslow hs) T' hT' (Nat.le_add_right _ _)
      omega
    · intro hs T' hT'
      have := ht.dead (hslow hs) T' hT' (Nat.le_add_right _ _)
      omega
  · apply cl3_true
    intro hs
    rw [h0, h1]
    exact ht.last (hslow hs)
  · apply cl4_true
    intro t hop
    obtain ⟨hq', hne, htext⟩ := hrut t hop
    refine ⟨hne, fun T' x ht' hx => ?_⟩
    have hTT : T = some T' := by
      rw [hop] at hT
      simp only [timeoutOf, Option.some.injEq] at hT
      rw [← hT, ht']
    obtain ⟨T'', hT'', hle⟩ := ht.tmo (htext x hx)
    rw [hTT] at hT''
    simp only [Option.some.injEq] at hT''
    subst hT''
    have := ht.dead hq' T' hTT (Nat.le_add_right _ _)
    omega

end C06
