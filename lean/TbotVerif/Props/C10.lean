import TbotVerif.Props.RunNext
/-! # C10 — Interactive commands: output, exit status and early exit are reported faithfully

`Run.run c pieces` is the model of `LinuxShell.run()` / `RunCommandProxy` (Model/Run.lean) for
the scenario `c` — an interactive command given as a script of print / read-line / sleep / exit
steps, a test body of proxy calls, the command that follows on the machine — with the remote's
stream handed out in the pieces `pieces` (any list: every fragmentation).  `Spec.C10` (Spec/Run.lean)
judges the observation.

**Domain** (checked by the Spec itself, step by step; outside it nothing is demanded):
the shell prompt occurs in nothing the remote sends except as the prompt after the command
(`promptOk`, the analogue of C01's `NoEarlyPrompt`); the body types only while the command waits
for input, one line per call, no black-listed byte, `sendcontrol` is ^C or ^D; `send(read_back=True)`
only when nothing is pending; `terminate*()` only for a command that is gone or ends without
further input; timeouts are not zero; exit statuses are bytes.

**Finding (not repairable by a local patch).**  The full statement
`∀ c pieces, 0 < c.chunk → Spec.C10 c (run c pieces) = true` is FALSE for the tree as it is: a
value-returning read (`expect`, `read_until_prompt(own prompt)`) whose last delivery ends inside
the shell's prompt returns the first bytes of the prompt to the caller, and a `terminate()` that
follows at once waits for ever, because it looks for the prompt only in what it reads itself
(`split_witness` below proves the negation on a concrete input; the same input is in
corpus/C10/kf_split_prompt.case and behaves identically on the real code).  What is proved is
`c10_partial`: the property holds for every scenario and every fragmentation in which no such
read occurs (`Run.splits … = false`). -/

namespace C10
open Run Chan Spec

/-- **C10 (partial: split-prompt reads excluded).**  For every scenario with a positive chunk
    size and every fragmentation of the remote's stream: unless a value-returning read has
    consumed part of the shell's prompt, the model's observation satisfies the specification. -/
theorem c10_partial (c : Run.Case) (pieces : List (List Nat)) (hc : 0 < c.chunk)
    (hns : splits c (Run.run c pieces) = false) : Spec.C10 c (Run.run c pieces) = true := by
  unfold Spec.C10
  cases hforb : forbidden (blacklist c) (lineOf c ++ [Tty.CR]) with
  | true =>
    simp only [if_true]
    unfold Run.run
    rw [enter_refused c _ hforb]
    simp only [beq_err, List.isEmpty_nil, Bool.and_self, Bool.true_and, beq_self_eq_true, Bool.and_true]
    exact next_exact c hc _ [] 0 rfl
  | false =>
    simp only [Bool.false_eq_true, if_false]
    obtain ⟨eo, p0, hent, hres, hsum, hsim0⟩ := enter_sim c hc (pieces.headD []) hforb
    unfold entered
    unfold splits at hns
    simp only [hforb, Bool.false_eq_true, if_false] at hns
    unfold Run.run at hns ⊢
    rw [hent] at hns ⊢
    simp only at hns ⊢
    have hwalk := fun hpok => body_sim c c.ops (pieces.drop 1) p0 _ (hsim0 hpok)
    generalize body c.ops (pieces.drop 1) p0 = bd at hns hwalk ⊢
    obtain ⟨os, raised, pcs, p1⟩ := bd
    simp only at hns hwalk ⊢
    -- the observation's enter / operations do not depend on how the block was left
    have henter : ∀ o : Obs, o.enter = eo → (o.enter.res == TRes.unit && o.enter.pieces.sum == (Tty.echo false (lineOf c ++ [Tty.CR])).length) = true := by
      intro o ho
      rw [ho, hres, hsum]
      simp [beq_unit]
    cases hpok : promptOk (prompt c) (start (prompt c) c.steps).1 (start (prompt c) c.steps).2.status with
    | false =>
      cases hal : p1.alive <;> simp [hal, hres, hsum, beq_unit]
    | true =>
      have hw := hwalk hpok
      rw [hpok] at hns
      simp only [Bool.not_true, Bool.false_eq_true, if_false] at hns
      cases hal : p1.alive with
      | true =>
        simp only [hal, if_true] at hns ⊢
        simp only [hres, hsum, beq_unit, beq_self_eq_true, Bool.and_self, Bool.true_and, Bool.not_true,
          Bool.false_eq_true, if_false]
        cases hwk : Ref.walk (prompt c) (blacklist c) c.ops os
            { rem := (start (prompt c) c.steps).2, pend := (start (prompt c) c.steps).1 } with
        | bad => rw [hwk] at hw; exact absurd hw (by simp)
        | split => rw [hwk] at hns; simp at hns
        | outside => rfl
        | ok v =>
          obtain ⟨r1, rs⟩ := v
          rw [hwk] at hw
          obtain ⟨hs1, hrs⟩ := hw
          simp only at hs1 hrs ⊢
          subst hrs
          have hnt : r1.phase ≠ .terminated := by
            intro hp
            have := (hs1.terminated hp).1
            rw [hal] at this; simp at this
          have hb : (r1.phase == Phase.terminated) = false := by
            cases hp : r1.phase with
            | terminated => exact absurd hp hnt
            | running => rfl
            | ended => rfl
          simp only [leave, hal, hb, Bool.false_eq_true, if_false, if_true]
          cases hp : r1.phase with
          | terminated => exact absurd hp hnt
          | running => cases rs <;> simp
          | ended => cases rs <;> simp
      | false =>
        simp only [hal, Bool.false_eq_true, if_false] at hns ⊢
        simp only [hres, hsum, beq_unit, beq_self_eq_true, Bool.and_self, Bool.true_and, Bool.not_true,
          Bool.false_eq_true, if_false]
        cases hwk : Ref.walk (prompt c) (blacklist c) c.ops os
            { rem := (start (prompt c) c.steps).2, pend := (start (prompt c) c.steps).1 } with
        | bad => rw [hwk] at hw; exact absurd hw (by simp)
        | split => rw [hwk] at hns; simp at hns
        | outside => rfl
        | ok v =>
          obtain ⟨r1, rs⟩ := v
          rw [hwk] at hw
          obtain ⟨hs1, hrs⟩ := hw
          simp only at hs1 hrs ⊢
          subst hrs
          have ht : r1.phase = .terminated := by
            cases hp : r1.phase with
            | terminated => rfl
            | running => have := (hs1.running hp).2.1; rw [hal] at this; simp at this
            | ended => have := (hs1.ended hp).2.1; rw [hal] at this; simp at this
          obtain ⟨_, _, hpend0⟩ := hs1.terminated ht
          have hflat : flat p1.r.st.script = [] := by
            have := hs1.pend
            rw [hpend0] at this
            exact this
          have hnext := next_exact c hc (pcs.headD []) p1.r.st.script p1.r.st.now hflat
          have hbt : ((Phase.terminated : Phase) == .terminated) = true := rfl
          simp only [leave, hal, ht, Bool.false_eq_true, if_false, hnext, hs1.rem, beq_self_eq_true, Bool.and_true, hbt,
            if_true]

end C10
