import TbotVerif.Props.RunNext
/-! # C10 — Interactive commands: output, exit status and early exit are reported faithfully

`Run.run c pieces` is the model of `LinuxShell.run()` / `RunCommandProxy` (Model/Run.lean) for
the scenario `c` — an interactive command given as a script of print / read-line / sleep / exit
steps, a test body of proxy calls, the command that follows on the machine — with the remote's
stream handed out in the pieces `pieces` (any list: every fragmentation).  `Spec.C10` (Spec/Run.lean)
judges the observation.

**Domain** (checked by the Spec itself, step by step; outside it nothing is demanded):
the shell prompt occurs in nothing the remote sends except as the prompt after the command
(`promptOk`, the analogue of C01's `NoEarlyPrompt`); the body types only while the command waits
for input, one line per call, no black-listed byte, `sendcontrol` is ^C or ^D; `send(read_back=True)`
only when nothing is pending; `terminate*()` only for a command that is gone or ends without
further input; timeouts are not zero; exit statuses are bytes.

**Finding (not repairable by a local patch).**  The full statement
`∀ c pieces, 0 < c.chunk → Spec.C10 c (run c pieces) = true` is FALSE for the tree as it is: a
value-returning read (`expect`, `read_until_prompt(own prompt)`) whose last delivery ends inside
the shell's prompt returns the first bytes of the prompt to the caller, and a `terminate()` that
follows at once waits for ever, because it looks for the prompt only in what it reads itself
(`split_witness` below proves the negation on a concrete input; the same input is in
corpus/C10/kf_split_prompt.case and behaves identically on the real code).  What is proved is
`c10_partial`: the property holds for every scenario and every fragmentation in which no such
read occurs (`Run.splits … = false`). -/

namespace C10
open Run Chan Spec

/-- **C10 (partial: split-prompt reads excluded).**  For every scenario with a positive chunk
    size and every fragmentation of the remote's stream: unless a value-returning read has
    consumed part of the shell's prompt, the model's observation satisfies the specification. -/
theorem c10_partial (c : Run.Case) (pieces : List (List Nat)) (hc : 0 < c.chunk)
    (hns : splits c (Run.run c pieces) = false) : Spec.C10 c (Run.run c pieces) = true := by
  unfold Spec.C10
  cases hforb : forbidden (blacklist c) (lineOf c ++ [Tty.CR]) with
  | true =>
    simp only [if_true]
    unfold Run.run
    rw [enter_refused c _ hforb]
    simp only [beq_err, List.isEmpty_nil, Bool.and_self, Bool.true_and, beq_self_eq_true, Bool.and_true]
    exact next_exact c hc _ [] 0 rfl
  | false =>
    simp only [Bool.false_eq_true, if_false]
    obtain ⟨eo, p0, hent, hres, hsum, hsim0⟩ := enter_sim c hc (pieces.headD []) hforb
    unfold entered
    unfold splits at hns
    simp only [hforb, Bool.false_eq_true, if_false] at hns
    unfold Run.run at hns ⊢
    rw [hent] at hns ⊢
    simp only at hns ⊢
    have hwalk := fun hpok => body_sim c c.ops (pieces.drop 1) p0 _ (hsim0 hpok)
    generalize body c.ops (pieces.drop 1) p0 = bd at hns hwalk ⊢
    obtain ⟨os, raised, pcs, p1⟩ := bd
    simp only at hns hwalk ⊢
    -- the observation's enter / operations do not depend on how the block was left
    have henter : ∀ o : Obs, o.enter = eo → (o.enter.res == TRes.unit && o.enter.pieces.sum == (Tty.echo false (lineOf c ++ [Tty.CR])).length) = true := by
      intro o ho
      rw [ho, hres, hsum]
      simp [beq_unit]
    cases hpok : promptOk (prompt c) (start (prompt c) c.steps).1 (start (prompt c) c.steps).2.status with
    | false =>
      cases hal : p1.alive <;> simp [hal, hres, hsum, beq_unit]
    | true =>
      have hw := hwalk hpok
      rw [hpok] at hns
      simp only [Bool.not_true, Bool.false_eq_true, if_false] at hns
      cases hal : p1.alive with
      | true =>
        simp only [hal, if_true] at hns ⊢
        simp only [hres, hsum, beq_unit, beq_self_eq_true, Bool.and_self, Bool.true_and, Bool.not_true,
          Bool.false_eq_true, if_false]
        cases hwk : Ref.walk (prompt c) (blacklist c) c.ops os
            { rem := (start (prompt c) c.steps).2, pend := (start (prompt c) c.steps).1 } with
        | bad => rw [hwk] at hw; exact absurd hw (by simp)
        | split => rw [hwk] at hns; simp at hns
        | outside => rfl
        | ok v =>
          obtain ⟨r1, rs⟩ := v
          rw [hwk] at hw
          obtain ⟨hs1, hrs⟩ := hw
          simp only at hs1 hrs ⊢
          subst hrs
          have hnt : r1.phase ≠ .terminated := by
            intro hp
            have := (hs1.terminated hp).1
            rw [hal] at this; simp at this
          have hb : (r1.phase == Phase.terminated) = false := by
            cases hp : r1.phase with
            | terminated => exact absurd hp hnt
            | running => rfl
            | ended => rfl
          simp only [leave, hal, hb, Bool.false_eq_true, if_false, if_true]
          cases hp : r1.phase with
          | terminated => exact absurd hp hnt
          | running => cases rs <;> simp
          | ended => cases rs <;> simp
      | false =>
        simp only [hal, Bool.false_eq_true, if_false] at hns ⊢
        simp only [hres, hsum, beq_unit, beq_self_eq_true, Bool.and_self, Bool.true_and, Bool.not_true,
          Bool.false_eq_true, if_false]
        cases hwk : Ref.walk (prompt c) (blacklist c) c.ops os
            { rem := (start (prompt c) c.steps).2, pend := (start (prompt c) c.steps).1 } with
        | bad => rw [hwk] at hw; exact absurd hw (by simp)
        | split => rw [hwk] at hns; simp at hns
        | outside => rfl
        | ok v =>
          obtain ⟨r1, rs⟩ := v
          rw [hwk] at hw
          obtain ⟨hs1, hrs⟩ := hw
          simp only at hs1 hrs ⊢
          subst hrs
          have ht : r1.phase = .terminated := by
            cases hp : r1.phase with
            | terminated => rfl
            | running => have := (hs1.running hp).2.1; rw [hal] at this; simp at this
            | ended => have := (hs1.ended hp).2.1; rw [hal] at this; simp at this
          obtain ⟨_, _, hpend0⟩ := hs1.terminated ht
          have hflat : flat p1.r.st.script = [] := by
            have := hs1.pend
            rw [hpend0] at this
            exact this
          have hnext := next_exact c hc (pcs.headD []) p1.r.st.script p1.r.st.now hflat
          have hbt : ((Phase.terminated : Phase) == .terminated) = true := rfl
          simp only [leave, hal, ht, Bool.false_eq_true, if_false, hnext, hs1.rem, beq_self_eq_true, Bool.and_true, hbt,
            if_true]

/-! ## the finding: the negation on a concrete input -/

/-- bash, READ_CHUNK_SIZE 3; the command prints "x" and exits with status 5; the body waits until
    everything has arrived, calls `expect("x")` and then `terminate()` -/
def splitCase : Run.Case :=
  { ash := false, chunk := 3, pre := [[104]], args := [], steps := [.print [120], .exit 5],
    next := { op := .exec, pre := [[104]], args := [], out := [110, 10], status := 0 },
    ops := [.wait, .expect [.lit [120]] (some 1500), .terminate] }

/-- the first delivery of `expect` is "xTB": three bytes, two of them the start of the prompt -/
def splitPieces : List (List Nat) := [[3], [], [3], [3, 3, 3, 3, 3, 3, 3]]

/-- `expect` returns `after = "TB"` (prompt text reaches the caller) and `terminate()` waits for
    ever: the model reproduces what the real code does on this input -/
theorem split_behaviour :
    (Run.run splitCase splitPieces).ops.map (·.res) = [.unit, .expect 0 [] ['x'] ['T', 'B'], .err .hang] := by
  decide +kernel

/-- **the full statement is false**: a well-formed scenario and a fragmentation for which the
    model — and the implementation — violates the specification -/
theorem split_witness :
    0 < splitCase.chunk ∧ Spec.C10 splitCase (Run.run splitCase splitPieces) = false
      ∧ splits splitCase (Run.run splitCase splitPieces) = true := by
  decide +kernel

theorem c10_full_is_false : ¬ ∀ (c : Run.Case) (pieces : List (List Nat)), 0 < c.chunk → Spec.C10 c (Run.run c pieces) = true := by
  intro h
  have := h splitCase splitPieces split_witness.1
  rw [split_witness.2.1] at this
  exact absurd this (by simp)

/-- with one more read between the two calls the death string (which keeps history) notices the
    end, and `terminate()` returns the real status: only the leaked prompt bytes remain wrong -/
example :
    ((Run.run { splitCase with ops := [.wait, .expect [.lit [120]] (some 1500), .rut (some 50), .terminate] }
        [[3], [], [3], [3, 3, 3, 3, 3, 3, 3], [3, 3, 3, 3, 3, 3, 3, 3, 3, 3, 3, 3]]).ops.map (·.res))
      = [.unit, .expect 0 [] ['x'] ['T', 'B'], .err .ended, .term 5 []] := by
  decide +kernel

/-! ## non-vacuity -/

/-- the scenario is inside the domain of the property from beginning to end -/
def inDomain (c : Run.Case) (o : Run.Obs) : Bool :=
  !forbidden (blacklist c) (lineOf c ++ [Tty.CR])
    && promptOk (prompt c) (start (prompt c) c.steps).1 (start (prompt c) c.steps).2.status
    && (match Ref.walk (prompt c) (blacklist c) c.ops o.ops
          { rem := (start (prompt c) c.steps).2, pend := (start (prompt c) c.steps).1 } with
        | .ok _ => true
        | _ => false)

/-- prints "hello\n", reads a line, prints "got\n", exits with 3; the body reads what is there,
    types "abc", terminates, then uses the machine's channel and the proxy once more -/
def demoCase : Run.Case :=
  { ash := true, chunk := 7, pre := [[104]], args := [[97, 32, 98]],
    steps := [.print [104, 101, 108, 108, 111, 10], .readLine, .sleep 3, .print [103, 111, 116, 10], .exit 3],
    next := { op := .exec, pre := [[104]], args := [[97]], out := [111, 117, 116, 10], status := 2 },
    ops := [.rut (some 200), .sendline [97, 98, 99] true, .terminate, .probe 0, .rut (some 100)] }

/-- the hypotheses of `c10_partial` are satisfiable by a scenario that stays inside the domain,
    interacts, and whose observation is the expected one -/
example :
    0 < demoCase.chunk
    ∧ splits demoCase (Run.run demoCase [[2, 1], [3, 4], [1, 1, 1, 2]]) = false
    ∧ inDomain demoCase (Run.run demoCase [[2, 1], [3, 4], [1, 1, 1, 2]]) = true
    ∧ Spec.C10 demoCase (Run.run demoCase [[2, 1], [3, 4], [1, 1, 1, 2]]) = true
    ∧ (Run.run demoCase [[2, 1], [3, 4], [1, 1, 1, 2]]).ops.map (·.res)
        = [.text "hello\n".toList, .unit, .term 3 "got\n".toList, .err .borrowed, .err .ended]
    ∧ (Run.run demoCase [[2, 1], [3, 4], [1, 1, 1, 2]]).exit = .none
    ∧ (Run.run demoCase [[2, 1], [3, 4], [1, 1, 1, 2]]).lines = some [some [97, 98, 99]] := by
  decide +kernel

/-- an early exit: the command ends at once; the read raises, later calls raise, `terminate0`
    raises CommandFailure for status 7, leaving is fine, the next command is exact -/
def earlyCase : Run.Case :=
  { demoCase with steps := [.print [98, 121, 101], .exit 7],
                  ops := [.rut (some 50), .sendline [122] false, .terminate0] }

example :
    inDomain earlyCase (Run.run earlyCase []) = true ∧ Spec.C10 earlyCase (Run.run earlyCase []) = true
    ∧ (Run.run earlyCase []).ops.map (·.res) = [.err .ended, .err .ended, .err .failure]
    ∧ (Run.run earlyCase []).exit = .none
    ∧ ((Run.run earlyCase []).next.map (·.val) == some (.rc 2 "out\n".toList)) = true := by
  decide +kernel

/-- leaving the block while the command runs: RuntimeError; a body exception propagates -/
example :
    (Run.run { demoCase with ops := [.rut (some 50)] } []).exit = .runtime
    ∧ (Run.run { demoCase with ops := [.rut (some 50), .raise, .terminate] } []).exit = .body
    ∧ Spec.C10 { demoCase with ops := [.rut (some 50), .raise, .terminate] }
        (Run.run { demoCase with ops := [.rut (some 50), .raise, .terminate] } []) = true := by
  decide +kernel

end C10
