import TbotVerif.Spec.Ssh
/-! Lemmas about the command-line parser of the `Ssh` cluster: what `parsePairs` / `parseTail` /
`parseProg` return on the pieces the argv builders emit.  All for arbitrary strings. -/

namespace Ssh

/-- prepend `-o` values to a parse result -/
def addO (l : List Str) (r : List Str × List Str × List Str) : List Str × List Str × List Str :=
  (l ++ r.1, r.2.1, r.2.2)
def addI (v : Str) (r : List Str × List Str × List Str) : List Str × List Str × List Str :=
  (r.1, v :: r.2.1, r.2.2)
def addP (v : Str) (r : List Str × List Str × List Str) : List Str × List Str × List Str :=
  (r.1, r.2.1, v :: r.2.2)

/-- the `-o` values `hkArgs` contributes -/
def hkO (hk : Bool) : List Str := if hk then [noHostKey] else []
/-- the `-o` values the multiplexing block contributes -/
def muxO : Option Str → List Str
  | some wd => [ctlMaster, ctlPersist, controlPath wd]
  | none => []

theorem parsePairs_o (pf v : Str) (t : List Arg) :
    parsePairs pf (sO :: .s v :: t) = (parsePairs pf t).map (addO [v]) := by
  simp only [sO, parsePairs]
  cases parsePairs pf t with
  | none => rfl
  | some r => obtain ⟨o, i, p⟩ := r; simp [addO]

theorem parsePairs_i (pf v : Str) (t : List Arg) :
    parsePairs pf (.s (lit "-i") :: .s v :: t) = (parsePairs pf t).map (addI v) := by
  simp only [parsePairs]
  cases parsePairs pf t with
  | none => rfl
  | some r =>
    obtain ⟨o, i, p⟩ := r
    have : lit "-i" ≠ lit "-o" := by decide
    simp [addI, this]

theorem parsePairs_p (pf v : Str) (t : List Arg) (h1 : pf ≠ lit "-o") (h2 : pf ≠ lit "-i") :
    parsePairs pf (.s pf :: .s v :: t) = (parsePairs pf t).map (addP v) := by
  simp only [parsePairs]
  cases parsePairs pf t with
  | none => rfl
  | some r => obtain ⟨o, i, p⟩ := r; simp [addP, h1, h2]

theorem addO_addO (a b : List Str) (r) : addO a (addO b r) = addO (a ++ b) r := by
  simp [addO]

theorem map_addO_nil (x : Option (List Str × List Str × List Str)) : x.map (addO []) = x := by
  cases x <;> simp [addO]

theorem parsePairs_optArgs (pf : Str) (l : List Str) (t : List Arg) :
    parsePairs pf (optArgs l ++ t) = (parsePairs pf t).map (addO l) := by
  induction l with
  | nil => simp [optArgs, map_addO_nil]
  | cons o l ih =>
    have : optArgs (o :: l) ++ t = sO :: .s o :: (optArgs l ++ t) := by simp [optArgs]
    rw [this, parsePairs_o, ih, Option.map_map]
    congr 1

theorem parsePairs_hkArgs (pf : Str) (hk : Bool) (t : List Arg) :
    parsePairs pf (hkArgs hk ++ t) = (parsePairs pf t).map (addO (hkO hk)) := by
  cases hk
  · simp [hkArgs, hkO, map_addO_nil]
  · simp [hkArgs, hkO, parsePairs_o]

theorem parsePairs_muxArgs (pf : Str) (mux : Option Str) (t : List Arg) :
    parsePairs pf (muxPart mux ++ t)
      = (parsePairs pf t).map (addO (muxO mux)) := by
  cases mux with
  | none => simp [muxPart, muxO, map_addO_nil]
  | some wd =>
    simp only [muxPart, muxArgs, muxO, List.cons_append, List.nil_append, parsePairs_o, Option.map_map]
    congr 1

theorem parseTail_append (pw : Option Str) (prog pf : Str) (n : Nat) (opt ops : List Arg)
    (h : ops.length = n) :
    parseTail pw prog pf n (opt ++ ops)
      = (parsePairs pf opt).map (fun r => ⟨pw, prog, r.1, r.2.1, r.2.2, ops⟩) := by
  unfold parseTail
  have h1 : ¬ (opt ++ ops).length < n := by simp; omega
  have h2 : (opt ++ ops).length - n = opt.length := by simp; omega
  rw [if_neg h1, h2, List.take_left' rfl, List.drop_left' rfl]
  cases parsePairs pf opt with
  | none => rfl
  | some r => obtain ⟨o, i, p⟩ := r; rfl

theorem stripPass_other (a : Str) (t : List Arg) (h : a ≠ lit "sshpass") :
    stripPass (.s a :: t) = (none, .s a :: t) := by
  unfold stripPass
  split
  · rename_i a' b pw rest heq
    simp only [List.cons.injEq, Arg.s.injEq] at heq
    obtain ⟨rfl, rfl⟩ := heq
    simp [h]
  · rfl

theorem stripPass_pass (pw : Str) (t : List Arg) :
    stripPass (.s (lit "sshpass") :: .s (lit "-p") :: .s pw :: t) = (some pw, t) := by
  simp [stripPass]


/-! ## canonicalisation of whole commands -/

theorem parseSsh_none_of_parseScp (argv : List Arg) (p : Parsed) (h : parseScp argv = some p) :
    parseSsh argv = none := by
  unfold parseScp parseProg at h
  unfold parseSsh parseProg
  generalize stripPass argv = sp at *
  obtain ⟨pw, l⟩ := sp
  cases l with
  | nil => simp at h
  | cons x rest =>
    cases x with
    | p hh v => simp at h
    | s q =>
      by_cases hq : q = lit "scp"
      · subst hq
        have : lit "scp" ≠ lit "ssh" := by decide
        simp [this]
      · simp [hq] at h

theorem parseCmd_ssh (argv : List Arg) (p : Parsed) (h : parseSsh argv = some p) :
    parseCmd argv = .parsed p := by
  simp [parseCmd, h]

theorem parseCmd_scp (argv : List Arg) (p : Parsed) (h : parseScp argv = some p) :
    parseCmd argv = .parsed p := by
  simp [parseCmd, h, parseSsh_none_of_parseScp argv p h]

/-- anything that is neither `ssh`, `scp` nor `sshpass …` stays as it is -/
theorem parseCmd_other (a : Str) (t : List Arg) (h1 : a ≠ lit "sshpass") (h2 : a ≠ lit "ssh")
    (h3 : a ≠ lit "scp") : parseCmd (.s a :: t) = .raw (.s a :: t) := by
  simp [parseCmd, parseSsh, parseScp, parseProg, stripPass_other a t h1, h2, h3]

/-! ## the comparison used by the Spec -/

theorem Arg.same_refl (a : Arg) : Arg.same a a = true := by
  cases a <;> simp [Arg.same]

theorem argsSame_refl (l : List Arg) : argsSame l l = true := by
  induction l with
  | nil => rfl
  | cons a l ih => simp [argsSame, Arg.same_refl, ih]

theorem cmdSame_parsed (p q : Parsed) (h1 : p.pw = q.pw) (h2 : p.prog = q.prog)
    (h3 : p.oOpts.Perm q.oOpts) (h4 : p.idents = q.idents) (h5 : p.ports = q.ports)
    (h6 : p.operands = q.operands) : Cmd.same (.parsed p) (.parsed q) = true := by
  simp [Cmd.same, h1, h2, h4, h5, h6, argsSame_refl, List.isPerm_iff.2 h3]

theorem cmdSame_raw (a : List Arg) : Cmd.same (.raw a) (.raw a) = true := by
  simp [Cmd.same, argsSame_refl]

/-- `wantOpts` in the shape the builders produce -/
theorem wantOpts_eq (e : Eff) (wd : Str) :
    wantOpts e wd = (if e.auth.isPassword then [] else [batchMode])
      ++ (hkO e.hk ++ (muxO (if e.mux then some wd else none) ++ e.opts)) := by
  unfold wantOpts hkO
  cases e.mux <;> simp [muxO]

/-- the scp builder emits the same `-o` values in another order -/
theorem scpOpts_perm (e : Eff) (wd : Str) :
    (hkO e.hk ++ (e.opts ++ (muxO (if e.mux then some wd else none)
        ++ if e.auth.isPassword then [] else [batchMode]))).Perm (wantOpts e wd) := by
  rw [wantOpts_eq, List.perm_iff_count]
  intro x
  simp only [List.count_append]
  omega

end Ssh
