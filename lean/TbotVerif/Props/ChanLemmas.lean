import TbotVerif.Spec.Chan
/-! Frame and conservation lemmas for the read side of the channel model. -/

namespace Chan

def flat (sc : List Piece) : Bytes := (sc.map (·.data)).flatten

/-- every scripted piece is non-empty -/
def WF (s : St) : Prop := ∀ p ∈ s.script, p.data ≠ []

def dataOf (recs : List ReadRec) : List Bytes := recs.filterMap (·.data)

/-- what a read-side step may change: clock, script, read log, streams' log/buffer, rings -/
structure ReadFrame (s s' : St) (recs : List ReadRec) : Prop where
  reads : s'.reads = s.reads ++ recs
  chunk : s'.chunk = s.chunk
  slice : s'.slice = s.slice
  prompt : s'.prompt = s.prompt
  blacklist : s'.blacklist = s.blacklist
  accept : s'.accept = s.accept
  writes : s'.writes = s.writes
  slowDelay : s'.slowDelay = s.slowDelay
  slowChunk : s'.slowChunk = s.slowChunk
  streams : s'.streams = s.streams
  logPrompt : s'.logPrompt = s.logPrompt
  flat : (dataOf recs).flatten ++ flat s'.script = flat s.script
  now : s.now ≤ s'.now
  wf : WF s → WF s'

theorem ReadFrame.refl (s : St) : ReadFrame s s [] := by
  constructor <;> simp [dataOf]

theorem ReadFrame.trans {s s' s'' : St} {r1 r2 : List ReadRec}
    (h1 : ReadFrame s s' r1) (h2 : ReadFrame s' s'' r2) : ReadFrame s s'' (r1 ++ r2) := by
  constructor
  · rw [h2.reads, h1.reads, List.append_assoc]
  · rw [h2.chunk, h1.chunk]
  · rw [h2.slice, h1.slice]
  · rw [h2.prompt, h1.prompt]
  · rw [h2.blacklist, h1.blacklist]
  · rw [h2.accept, h1.accept]
  · rw [h2.writes, h1.writes]
  · rw [h2.slowDelay, h1.slowDelay]
  · rw [h2.slowChunk, h1.slowChunk]
  · rw [h2.streams, h1.streams]
  · rw [h2.logPrompt, h1.logPrompt]
  · rw [← h1.flat, ← h2.flat]; simp [dataOf, List.filterMap_append]
  · exact Nat.le_trans h1.now h2.now
  · exact fun h => h2.wf (h1.wf h)

theorem takeHead_spec (n : Nat) (p : Piece) (ps : List Piece) :
    (takeHead n p ps).1 ++ flat (takeHead n p ps).2 = p.data ++ flat ps
    ∧ (takeHead n p ps).1.length ≤ n
    ∧ (p.data ≠ [] → 0 < n → (takeHead n p ps).1 ≠ [])
    ∧ ((∀ q ∈ p :: ps, q.data ≠ []) → ∀ q ∈ (takeHead n p ps).2, q.data ≠ []) := by
  unfold takeHead
  split
  · rename_i h
    refine ⟨rfl, h, fun hne _ => hne, fun hw q hq => hw q (List.mem_cons_of_mem _ hq)⟩
  · rename_i h
    have hlt : n < p.data.length := Nat.lt_of_not_le h
    refine ⟨?_, ?_, ?_, ?_⟩
    · simp only [flat, List.map_cons, List.flatten_cons]
      rw [← List.append_assoc, List.take_append_drop]
    · simp only [List.length_take]; exact Nat.min_le_left _ _
    · intro _ hn hc
      have := congrArg List.length hc
      simp only [List.length_take, List.length_nil] at this
      omega
    · intro hw q hq
      rcases List.mem_cons.mp hq with rfl | hq
      · intro hc
        have := congrArg List.length hc
        simp only [List.length_drop, List.length_nil] at this
        omega
      · exact hw q (List.mem_cons_of_mem _ hq)

/-- what one transport read looks like from outside -/
structure IoSpec (n : Nat) (t : Option Nat) (s : St) (r : Res Bytes) (rec : ReadRec) : Prop where
  frame : ReadFrame s r.2 [rec]
  hn : rec.n = n
  htimeout : rec.timeout = t
  ht0 : rec.t0 = s.now
  ht1 : rec.t1 = r.2.now
  deaths : r.2.deaths = s.deaths
  fwd : r.2.fwd = s.fwd
  streambuf : r.2.streambuf = s.streambuf
  ok : ∀ d, r.1 = .ok d → rec.data = some d ∧ d.length ≤ n ∧ (WF s → 0 < n → d ≠ [])
  err : ∀ e, r.1 = .error e → rec.data = none ∧ (e = .timeout ∨ e = .hang)
          ∧ (e = .timeout → ∃ T, t = some T ∧ r.2.now = s.now + T)
          ∧ (e = .hang → t = none ∧ r.2.now = s.now) ∧ r.2.script = s.script

theorem ioFail_spec (n : Nat) (t : Option Nat) (s : St) (t1 : Nat) (e : Exc) (h1 : s.now ≤ t1)
    (he : e = .timeout ∨ e = .hang) (ht : e = .timeout → ∃ T, t = some T ∧ t1 = s.now + T)
    (hh : e = .hang → t = none ∧ t1 = s.now) :
    IoSpec n t s (ioFail n t s t1 e) ⟨n, t, s.now, t1, none⟩ := by
  unfold ioFail
  exact {
    frame := {
      reads := rfl, chunk := rfl, slice := rfl, prompt := rfl, blacklist := rfl, accept := rfl,
      writes := rfl, slowDelay := rfl, slowChunk := rfl, streams := rfl, logPrompt := rfl,
      flat := by simp [dataOf], now := h1, wf := fun h => h }
    hn := rfl, htimeout := rfl, ht0 := rfl, ht1 := rfl, deaths := rfl, fwd := rfl, streambuf := rfl
    ok := by intro d h; simp at h
    err := by
      intro e' h
      simp only [Except.error.injEq] at h
      subst h
      exact ⟨rfl, he, ht, hh, rfl⟩ }

theorem ioDeliver_spec (n : Nat) (t : Option Nat) (s : St) (t1 : Nat) (p : Piece) (ps : List Piece)
    (hs : s.script = p :: ps) (h1 : s.now ≤ t1) :
    IoSpec n t s (ioDeliver n t s t1 p ps) ⟨n, t, s.now, t1, some (takeHead n p ps).1⟩ := by
  have hth := takeHead_spec n p ps
  unfold ioDeliver
  exact {
    frame := {
      reads := rfl, chunk := rfl, slice := rfl, prompt := rfl, blacklist := rfl, accept := rfl,
      writes := rfl, slowDelay := rfl, slowChunk := rfl, streams := rfl, logPrompt := rfl,
      flat := by
        simp only [dataOf, List.filterMap_cons, List.filterMap_nil, List.flatten_cons,
          List.flatten_nil, List.append_nil, hs]
        simpa [flat] using hth.1
      now := h1
      wf := by
        intro hw
        exact hth.2.2.2 (by simpa [WF, hs] using hw) }
    hn := rfl, htimeout := rfl, ht0 := rfl, ht1 := rfl, deaths := rfl, fwd := rfl, streambuf := rfl
    ok := by
      intro d h
      simp only [Except.ok.injEq] at h
      subst h
      exact ⟨rfl, hth.2.1, fun hw hn => hth.2.2.1 (hw p (by simp [hs])) hn⟩
    err := by intro e h; simp at h }

theorem ioRead_spec (n : Nat) (t : Option Nat) (s : St) :
    ∃ rec, IoSpec n t s (ioRead n t s) rec := by
  unfold ioRead
  split
  · cases t with
    | none => exact ⟨_, ioFail_spec _ _ _ _ _ (Nat.le_refl _) (Or.inr rfl) (by simp) (by simp)⟩
    | some T =>
      exact ⟨_, ioFail_spec _ _ _ _ _ (Nat.le_add_right _ _) (Or.inl rfl) (fun _ => ⟨T, rfl, rfl⟩) (by simp)⟩
  · rename_i p ps hs
    split
    · exact ⟨_, ioDeliver_spec _ _ _ _ _ _ hs (Nat.le_refl _)⟩
    · rename_i hgt
      have hlt : s.now ≤ p.tick := by omega
      cases t with
      | none => exact ⟨_, ioDeliver_spec _ _ _ _ _ _ hs hlt⟩
      | some T =>
        simp only
        split
        · exact ⟨_, ioDeliver_spec _ _ _ _ _ _ hs hlt⟩
        · exact ⟨_, ioFail_spec _ _ _ _ _ (Nat.le_add_right _ _) (Or.inl rfl) (fun _ => ⟨T, rfl, rfl⟩) (by simp)⟩

/-- what `writeStream`/`check` may change: forwarded log, hold-back buffer, rings -/
structure SideFrame (s s' : St) : Prop where
  now : s'.now = s.now
  script : s'.script = s.script
  reads : s'.reads = s.reads
  chunk : s'.chunk = s.chunk
  slice : s'.slice = s.slice
  prompt : s'.prompt = s.prompt
  blacklist : s'.blacklist = s.blacklist
  accept : s'.accept = s.accept
  writes : s'.writes = s.writes
  slowDelay : s'.slowDelay = s.slowDelay
  slowChunk : s'.slowChunk = s.slowChunk
  streams : s'.streams = s.streams
  logPrompt : s'.logPrompt = s.logPrompt

theorem SideFrame.refl (s : St) : SideFrame s s := by constructor <;> rfl

theorem SideFrame.trans {a b c : St} (h1 : SideFrame a b) (h2 : SideFrame b c) : SideFrame a c := by
  constructor
  · rw [h2.now, h1.now]
  · rw [h2.script, h1.script]
  · rw [h2.reads, h1.reads]
  · rw [h2.chunk, h1.chunk]
  · rw [h2.slice, h1.slice]
  · rw [h2.prompt, h1.prompt]
  · rw [h2.blacklist, h1.blacklist]
  · rw [h2.accept, h1.accept]
  · rw [h2.writes, h1.writes]
  · rw [h2.slowDelay, h1.slowDelay]
  · rw [h2.slowChunk, h1.slowChunk]
  · rw [h2.streams, h1.streams]
  · rw [h2.logPrompt, h1.logPrompt]

theorem ReadFrame.side {s s' s'' : St} {r : List ReadRec} (h1 : ReadFrame s s' r) (h2 : SideFrame s' s'') :
    ReadFrame s s'' r := by
  constructor
  · rw [h2.reads, h1.reads]
  · rw [h2.chunk, h1.chunk]
  · rw [h2.slice, h1.slice]
  · rw [h2.prompt, h1.prompt]
  · rw [h2.blacklist, h1.blacklist]
  · rw [h2.accept, h1.accept]
  · rw [h2.writes, h1.writes]
  · rw [h2.slowDelay, h1.slowDelay]
  · rw [h2.slowChunk, h1.slowChunk]
  · rw [h2.streams, h1.streams]
  · rw [h2.logPrompt, h1.logPrompt]
  · rw [h2.script]; exact h1.flat
  · rw [h2.now]; exact h1.now
  · intro h; have := h1.wf h; unfold WF at *; rw [h2.script]; exact this

theorem emit_side (frag : Bytes) (s : St) : SideFrame s (emit frag s) := by
  unfold emit; constructor <;> rfl

theorem writeStream_side (buf : Bytes) (s : St) : SideFrame s (writeStream buf s) := by
  unfold writeStream
  split
  · exact SideFrame.refl s
  · split <;> (try split) <;> constructor <;> rfl

theorem check_side (incoming : Bytes) (s : St) : SideFrame s (check incoming s).2 := by
  unfold check
  split
  · exact SideFrame.refl s
  · simp only
    split <;> constructor <;> rfl

theorem check_err (incoming : Bytes) (s : St) (e : Exc) (h : (check incoming s).1 = .error e) :
    ∃ x m, e = .death x m := by
  unfold check at h
  split at h
  · simp at h
  · simp only at h
    split at h
    · simp only [Except.error.injEq] at h; exact ⟨_, _, h.symm⟩
    · simp at h

/-- the possible outcomes of one resumption of `read_iter` -/
inductive RiOut (ri : RI) (s : St) : Step → RI → St → Prop
  | done : ri.max = some ri.got → ri.started = true → RiOut ri s .done ri s
  | expired : ¬ (ri.started = true ∧ ri.max = some ri.got) →
      remaining ri.timeout ri.t0 s.now = none → RiOut ri s (.err .timeout) ri s
  | ioErr (rem : Option Nat) (rec : ReadRec) (s' : St) (e : Exc) :
      ¬ (ri.started = true ∧ ri.max = some ri.got) →
      remaining ri.timeout ri.t0 s.now = some rem →
      IoSpec (ri.maxRead s.chunk) rem s (.error e, s') rec →
      RiOut ri s (.err e) ri s'
  | chunk (rem : Option Nat) (rec : ReadRec) (s1 : St) (b : Bytes) :
      ¬ (ri.started = true ∧ ri.max = some ri.got) →
      remaining ri.timeout ri.t0 s.now = some rem →
      IoSpec (ri.maxRead s.chunk) rem s (.ok b, s1) rec →
      (check b (writeStream b s1)).1 = .ok () →
      RiOut ri s (.chunk b) { ri with got := ri.got + b.length, started := true } (check b (writeStream b s1)).2
  | death (rem : Option Nat) (rec : ReadRec) (s1 : St) (b : Bytes) (x : Nat) (m : Bytes) :
      ¬ (ri.started = true ∧ ri.max = some ri.got) →
      remaining ri.timeout ri.t0 s.now = some rem →
      IoSpec (ri.maxRead s.chunk) rem s (.ok b, s1) rec →
      (check b (writeStream b s1)).1 = .error (.death x m) →
      RiOut ri s (.err (.death x m)) { ri with got := ri.got + b.length, started := true } (check b (writeStream b s1)).2

theorem riNext_out (ri : RI) (s : St) : RiOut ri s (riNext ri s).1 (riNext ri s).2.1 (riNext ri s).2.2 := by
  unfold riNext
  split
  · rename_i h
    simp only [Bool.and_eq_true, beq_iff_eq] at h
    exact .done h.2 h.1
  · rename_i hnd
    simp only [Bool.and_eq_true, beq_iff_eq] at hnd
    cases hrem : remaining ri.timeout ri.t0 s.now with
    | none => exact .expired hnd hrem
    | some rem =>
      simp only
      obtain ⟨rec, hio⟩ := ioRead_spec (ri.maxRead s.chunk) rem s
      cases hr : ioRead (ri.maxRead s.chunk) rem s with
      | mk r s1 =>
        rw [hr] at hio
        cases r with
        | error e => exact .ioErr rem rec s1 e hnd hrem hio
        | ok b =>
          simp only
          cases hc : check b (writeStream b s1) with
          | mk c s2 =>
            cases c with
            | ok u =>
              have : s2 = (check b (writeStream b s1)).2 := by rw [hc]
              rw [this]
              exact .chunk rem rec s1 b hnd hrem hio (by rw [hc])
            | error e =>
              obtain ⟨x, m, rfl⟩ := check_err b (writeStream b s1) e (by rw [hc])
              have : s2 = (check b (writeStream b s1)).2 := by rw [hc]
              rw [this]
              exact .death rem rec s1 b x m hnd hrem hio (by rw [hc])

/-- frame of a data-delivering outcome -/
theorem chunk_frame {n : Nat} {rem : Option Nat} {s s1 : St} {b : Bytes} {rec : ReadRec}
    (hio : IoSpec n rem s (.ok b, s1) rec) :
    ReadFrame s (check b (writeStream b s1)).2 [rec] :=
  (hio.frame.side (writeStream_side b s1)).side (check_side b _)

end Chan
