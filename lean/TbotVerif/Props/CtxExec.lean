import TbotVerif.Props.CtxOps3
set_option linter.unusedSimpArgs false
set_option linter.unusedVariables false
/-! Programs preserve the invariant. -/
namespace Ctx

section
variable (cfg : Cfg)

theorem logLeave_ext (r : R) : Ext r.1 (logLeave r).1 := by
  unfold logLeave
  split
  · exact ext_log (by simp [Ev.quiet])
  · exact Ext.refl _

/-- a state that differs only in fields the invariant does not read -/
theorem ext_scalars (s : St) (order : List Nat) (openCtx : Nat) (ka roe : Bool) :
    Ext s { s with order := order, openCtx := openCtx, keepAlive := ka, roeDefault := roe } :=
  ⟨rfl, rfl, rfl, rfl, rfl, [], by simp, by simp⟩

theorem ctxExit_spec (hwf : cfg.depsBelow) {s : St} (h : Inv [] s) :
    Inv [] (ctxExit cfg s).1 ∧ Step [] [] s (ctxExit cfg s).1 := by
  unfold ctxExit
  simp only
  split
  · have h1 := tdLoop_spec (ops_spec cfg hwf cfg.n).1 (fun s c => s.alive c && s.keepAlive)
      s.order.reverse s none h
    generalize tdLoop (ops cfg cfg.n).teardown (fun s c => s.alive c && s.keepAlive)
      s.order.reverse s none = r at h1 ⊢
    have hx : Ext r.1 { r.1 with openCtx := r.1.openCtx - 1 } :=
      ⟨rfl, rfl, rfl, rfl, rfl, [], by simp, by simp⟩
    exact ⟨h1.1.ext hx, h1.2.trans_nil (Step.of_ext [] hx) h.idLt⟩
  · have hx : Ext s { s with openCtx := s.openCtx - 1 } :=
      ⟨rfl, rfl, rfl, rfl, rfl, [], by simp, by simp⟩
    exact ⟨h.ext hx, Step.of_ext [] hx⟩

theorem reconfExit_spec (hwf : cfg.depsBelow) (ka0 roe0 : Bool) (ka : Option Bool) {s : St}
    (h : Inv [] s) :
    Inv [] (reconfExit cfg ka0 roe0 ka s).1 ∧ Step [] [] s (reconfExit cfg ka0 roe0 ka s).1 := by
  unfold reconfExit
  simp only
  have hx : Ext s { s with keepAlive := ka0, roeDefault := roe0 } :=
    ⟨rfl, rfl, rfl, rfl, rfl, [], by simp, by simp⟩
  split
  · have h1 := tdLoop_spec (ops_spec cfg hwf cfg.n).1 (fun s c => s.alive c && (s.mgr c).users == 0)
      ({ s with keepAlive := ka0, roeDefault := roe0 } : St).order.reverse
      { s with keepAlive := ka0, roeDefault := roe0 } none (h.ext hx)
    exact ⟨h1.1, (Step.of_ext [] hx).trans_nil h1.2 h.idLt⟩
  · exact ⟨h.ext hx, Step.of_ext [] hx⟩

mutual
theorem exec_inv (hwf : cfg.depsBelow) : ∀ (p : Stmt) (s : St), Inv [] s →
    Inv [] (exec cfg p s).1 ∧ Step [] [] s (exec cfg p s).1
  | .req c reset excl roe body, s, h => by
    rw [exec]
    have hre := (ops_spec cfg hwf cfg.n).2.2 [] false c reset excl roe s h (by simp)
    generalize (ops cfg cfg.n).reqEnter false c reset excl roe s = r at hre ⊢
    obtain ⟨s1, res⟩ := r
    cases res with
    | inr e =>
      simp only
      have hx : Ext s1 (s1.log (.leaves e)) := ext_log (by simp [Ev.quiet])
      exact ⟨hre.1.ext hx, hre.2.1.trans_nil (Step.of_ext [] hx) h.idLt⟩
    | inl f =>
      simp only
      obtain ⟨hfo, hfh, hfc, _⟩ := hre.2.2 f rfl
      simp only at hfo hfh hre
      have hb := execBlock_inv hwf body s1 hre.1
      generalize execBlock cfg body s1 = rb at hb ⊢
      have hp : Pend [f] rb.1 := (Pend.single hfo hfh).tr hb.2.tr hre.1.idLt (by simp)
      have hrx := (ops_spec cfg hwf cfg.n).2.1 [] f rb.1 rb.2 hb.1 (by simp)
        (hp.isOpen f (by simp)) (hp.notHeld f (by simp))
      generalize (ops cfg cfg.n).reqExit f rb.1 rb.2 = r2 at hrx ⊢
      have hx := logLeave_ext r2
      refine ⟨hrx.1.ext hx, ?_⟩
      have t1 : Step [] [] s rb.1 := hre.2.1.trans_nil hb.2 h.idLt
      have t2 : Step [] [f] s r2.1 := t1.nil_trans hrx.2 h.idLt
      have t3 : Step [] [f] s (logLeave r2).1 := t2.trans_nil (Step.of_ext [] hx) h.idLt
      refine ⟨⟨t3.tr.nFrame_le, ?_, t3.tr.newHeld, t3.tr.nObj_le⟩, t3.keep⟩
      intro g hg hn
      rcases t3.tr.gone g hg hn with hm | hk
      · -- `f` did not exist in `s`
        simp at hm
        subst hm
        have := h.idLt g hg
        have := (hre.2.2 g rfl).2.2.2
        omega
      · exact Or.inr hk
  | .ctx body, s, h => by
    rw [exec]
    skip
    have hx1 : Ext s ({ (s.log .ctxEnter) with openCtx := (s.log .ctxEnter).openCtx + 1 } : St) :=
      ⟨rfl, rfl, rfl, rfl, rfl, [.ctxEnter], by simp [Ev.quiet], by simp [St.log]⟩
    have hb := execBlock_inv hwf body _ (h.ext hx1)
    generalize execBlock cfg body ({ (s.log .ctxEnter) with openCtx := (s.log .ctxEnter).openCtx + 1 } : St) = rb at hb ⊢
    have hx2 : Ext rb.1 (rb.1.log .ctxBody) := ext_log (by simp [Ev.quiet])
    have hc := ctxExit_spec cfg hwf (hb.1.ext hx2)
    generalize ctxExit cfg (rb.1.log .ctxBody) = r2 at hc ⊢
    have hx3 : Ext r2.1 (r2.1.log .ctxLeave) := ext_log (by simp [Ev.quiet])
    have hx4 := logLeave_ext (r2.1.log .ctxLeave, later rb.2 r2.2)
    refine ⟨(hc.1.ext hx3).ext hx4, ?_⟩
    exact ((((Step.of_ext [] hx1).trans_nil hb.2 h.idLt).trans_nil (Step.of_ext [] hx2) h.idLt).trans_nil
      hc.2 h.idLt).trans_nil (Step.of_ext [] (hx3.trans hx4)) h.idLt
  | .reconf ka roe body, s, h => by
    rw [exec]
    skip
    have hx1 : Ext s ({ s with keepAlive := ka.getD s.keepAlive, roeDefault := roe.getD s.roeDefault } : St) :=
      ⟨rfl, rfl, rfl, rfl, rfl, [], by simp, by simp⟩
    have hb := execBlock_inv hwf body _ (h.ext hx1)
    generalize execBlock cfg body ({ s with keepAlive := ka.getD s.keepAlive, roeDefault := roe.getD s.roeDefault } : St) = rb at hb ⊢
    have hc := reconfExit_spec cfg hwf s.keepAlive s.roeDefault ka hb.1
    generalize reconfExit cfg s.keepAlive s.roeDefault ka rb.1 = r2 at hc ⊢
    have hx4 := logLeave_ext (r2.1, later rb.2 r2.2)
    refine ⟨hc.1.ext hx4, ?_⟩
    exact (((Step.of_ext [] hx1).trans_nil hb.2 h.idLt).trans_nil hc.2 h.idLt).trans_nil
      (Step.of_ext [] hx4) h.idLt
  | .try_ body, s, h => by
    rw [exec]
    skip
    have hb := execBlock_inv hwf body s h
    generalize execBlock cfg body s = rb at hb ⊢
    split
    · rename_i e _
      have hx : Ext rb.1 (rb.1.log (.caught e)) := ext_log (by simp [Ev.quiet])
      exact ⟨hb.1.ext hx, hb.2.trans_nil (Step.of_ext [] hx) h.idLt⟩
    · exact hb
  | .raise, s, h => by
    rw [exec]
    simp only
    have hx : Ext s ((s.newExc .body).1.log (.created (s.newExc .body).2)) :=
      (ext_newExc s .body).trans (ext_log (by simp [Ev.quiet]))
    exact ⟨h.ext hx, Step.of_ext [] hx⟩
  | .skip, s, h => by
    rw [exec]
    simp only
    have hx : Ext s ((s.newExc .skip).1.log (.created (s.newExc .skip).2)) :=
      (ext_newExc s .skip).trans (ext_log (by simp [Ev.quiet]))
    exact ⟨h.ext hx, Step.of_ext [] hx⟩
  | .td c, s, h => by
    rw [exec]
    split
    · simp only
      have htd := (ops_spec cfg hwf cfg.n).1 [] c s h (by simp)
      generalize (ops cfg cfg.n).teardown c s = r at htd ⊢
      split
      · rename_i e _
        have hx : Ext r.1 (r.1.log (.leaves e)) := ext_log (by simp [Ev.quiet])
        exact ⟨htd.1.ext hx, htd.2.trans_nil (Step.of_ext [] hx) h.idLt⟩
      · have hx : Ext r.1 (r.1.log (.tdRes c true)) := ext_log (by simp [Ev.quiet])
        exact ⟨htd.1.ext hx, htd.2.trans_nil (Step.of_ext [] hx) h.idLt⟩
    · have hx : Ext s (s.log (.tdRes c false)) := ext_log (by simp [Ev.quiet])
      exact ⟨h.ext hx, Step.of_ext [] hx⟩

theorem execBlock_inv (hwf : cfg.depsBelow) : ∀ (b : Block) (s : St), Inv [] s →
    Inv [] (execBlock cfg b s).1 ∧ Step [] [] s (execBlock cfg b s).1
  | .nil, s, h => by
    rw [execBlock]
    exact ⟨h, Step.refl [] s⟩
  | .cons p rest, s, h => by
    rw [execBlock]
    skip
    have h1 := exec_inv hwf p s h
    generalize exec cfg p s = r at h1 ⊢
    split
    · exact h1
    · have h2 := execBlock_inv hwf rest r.1 h1.1
      exact ⟨h2.1, h1.2.trans_nil h2.2 h.idLt⟩
end

end

end Ctx
