import TbotVerif.Props.FilesRemote
import TbotVerif.Props.FilesOps
/-! C11 — facts about the command lines `Path` builds: which bytes they contain (black-list, CR),
    in terms of the path / data they are built from and of the fixed words.  Generic in the
    black-list; the table facts (`BlTable`) are closed by evaluation for the two regenerated
    black-lists in `Props/C11.lean`. -/

namespace Files
open Quote

/-- the fixed words of the command lines -/
def fixedWords : List Bytes :=
  [str "printf", str "%s", str "tee", str "base64", str "-d", str "-", str Params.spPipe, str "cat", GT, devNull]

/-- every byte the command lines contain besides path and data -/
def fixedBytes : Bytes := fixedWords.flatten ++ [SP, SQ, DQ, 13]

/-- what the theorems need to know about a black-list -/
structure BlTable (bl : Bytes) : Prop where
  /-- no byte of the fixed words, no blank, quote or Enter key is forbidden -/
  fixed : Chan.forbidden bl fixedBytes = false
  /-- `echo $?` can be sent -/
  status : Chan.forbidden bl (Shell.echoStatusLine ++ [13]) = false
  /-- the end-of-file character is forbidden (text that may be sent cannot contain it) -/
  eot : bl.contains EOT = true
  /-- no base64 symbol is forbidden -/
  b64 : bl.all (fun c => !isB64 c) = true

theorem forbidden_false_iff (bl buf : Bytes) : Chan.forbidden bl buf = false ↔ ∀ x ∈ bl, x ∉ buf := by
  cases h : Chan.forbidden bl buf with
  | true =>
    simp only [Bool.true_eq_false, false_iff]
    obtain ⟨x, hx, hm⟩ := (C03.forbidden_iff bl buf).mp h
    exact fun hall => hall x hx hm
  | false =>
    simp only [true_iff]
    intro x hx hm
    have := (C03.forbidden_iff bl buf).mpr ⟨x, hx, hm⟩
    rw [h] at this; cases this

theorem BlTable.notFixed {bl : Bytes} (h : BlTable bl) : ∀ x ∈ bl, x ∉ fixedBytes :=
  (forbidden_false_iff bl fixedBytes).mp h.fixed

theorem BlTable.word {bl : Bytes} (h : BlTable bl) (w : Bytes) (hw : w ∈ fixedWords) : ∀ x ∈ bl, x ∉ w := by
  intro x hx hm
  exact h.notFixed x hx (List.mem_append_left _ (List.mem_flatten.mpr ⟨w, hw, hm⟩))

theorem BlTable.sp {bl : Bytes} (h : BlTable bl) : ∀ x ∈ bl, x ≠ SP ∧ x ≠ SQ ∧ x ≠ DQ ∧ x ≠ 13 := by
  intro x hx
  have := h.notFixed x hx
  simp only [fixedBytes, List.mem_append, List.mem_cons, List.not_mem_nil, or_false, not_or] at this
  exact this.2

/-- a byte other than `'` and `"` occurs in the quoted word iff it occurs in the word -/
theorem mem_shlexQuote (c : Byte) (h1 : c ≠ SQ) (h2 : c ≠ DQ) (s : Bytes) : c ∈ shlexQuote s ↔ c ∈ s := by
  rw [← List.count_pos_iff, ← List.count_pos_iff, count_shlexQuote c h1 h2]

theorem BlTable.quote {bl : Bytes} (h : BlTable bl) (s : Bytes) (hs : Chan.forbidden bl s = false) :
    ∀ x ∈ bl, x ∉ shlexQuote s := by
  intro x hx hm
  obtain ⟨_, h1, h2, _⟩ := h.sp x hx
  exact (forbidden_false_iff bl s).mp hs x hx ((mem_shlexQuote x h1 h2 s).mp hm)

theorem BlTable.eotNot {bl : Bytes} (h : BlTable bl) (e : Bytes) (he : Chan.forbidden bl e = false) : EOT ∉ e := by
  have : EOT ∈ bl := by simpa using h.eot
  exact (forbidden_false_iff bl e).mp he EOT this

theorem BlTable.b64Not {bl : Bytes} (h : BlTable bl) : ∀ x ∈ bl, isB64 x = false := by
  intro x hx
  have := List.all_eq_true.mp h.b64 x hx
  simpa using this

/-! ### black-list -/

theorem q_words : ∀ w ∈ [str "printf", str "%s", str "tee", str "base64", str "-d", str "-", str "cat"], shlexQuote w = w := by
  decide +kernel

theorem forb_printfLine {bl : Bytes} (h : BlTable bl) (path data : Bytes) (hp : Chan.forbidden bl path = false)
    (hd : Chan.forbidden bl data = false) : Chan.forbidden bl (printfLine path data ++ [13]) = false := by
  rw [forbidden_false_iff]
  intro x hx
  obtain ⟨h0, _, _, h3⟩ := h.sp x hx
  rw [printfLine_eq, q_printf, q_fmt]
  simp only [List.mem_append, List.mem_cons, List.not_mem_nil, or_false, not_or]
  refine ⟨⟨h.word _ (by simp [fixedWords]) x hx, h0, h.word _ (by simp [fixedWords]) x hx, h0, h.quote data hd x hx, h0,
    h.word GT (by simp [fixedWords]) x hx, h.quote path hp x hx⟩, h3⟩

theorem forb_teeLine {bl : Bytes} (h : BlTable bl) (path : Bytes) (hp : Chan.forbidden bl path = false) :
    Chan.forbidden bl (teeLine path ++ [13]) = false := by
  rw [forbidden_false_iff]
  intro x hx
  obtain ⟨h0, _, _, h3⟩ := h.sp x hx
  rw [teeLine_eq, q_tee]
  simp only [List.mem_append, List.mem_cons, List.not_mem_nil, or_false, not_or]
  exact ⟨⟨h.word _ (by simp [fixedWords]) x hx, h0, h.quote path hp x hx, h0, h.word GT (by simp [fixedWords]) x hx,
    h.word devNull (by simp [fixedWords]) x hx⟩, h3⟩

theorem forb_b64TeeLine {bl : Bytes} (h : BlTable bl) (path : Bytes) (hp : Chan.forbidden bl path = false) :
    Chan.forbidden bl (b64TeeLine path ++ [13]) = false := by
  rw [forbidden_false_iff]
  intro x hx
  obtain ⟨h0, _, _, h3⟩ := h.sp x hx
  rw [b64TeeLine_eq, q_base64, q_d, q_dash, q_tee]
  simp only [List.mem_append, List.mem_cons, List.not_mem_nil, or_false, not_or]
  exact ⟨⟨h.word _ (by simp [fixedWords]) x hx, h0, h.word _ (by simp [fixedWords]) x hx, h0,
    h.word _ (by simp [fixedWords]) x hx, h0, h.word _ (by simp [fixedWords]) x hx, h0,
    h.word _ (by simp [fixedWords]) x hx, h0, h.quote path hp x hx, h0, h.word GT (by simp [fixedWords]) x hx,
    h.word devNull (by simp [fixedWords]) x hx⟩, h3⟩

theorem forb_catLine {bl : Bytes} (h : BlTable bl) (path : Bytes) (hp : Chan.forbidden bl path = false) :
    Chan.forbidden bl (catLine path ++ [13]) = false := by
  rw [forbidden_false_iff]
  intro x hx
  obtain ⟨h0, _, _, h3⟩ := h.sp x hx
  rw [catLine_eq, q_cat]
  simp only [List.mem_append, List.mem_cons, List.not_mem_nil, or_false, not_or]
  exact ⟨⟨h.word _ (by simp [fixedWords]) x hx, h0, h.quote path hp x hx⟩, h3⟩

theorem forb_b64Line {bl : Bytes} (h : BlTable bl) (path : Bytes) (hp : Chan.forbidden bl path = false) :
    Chan.forbidden bl (b64Line path ++ [13]) = false := by
  rw [forbidden_false_iff]
  intro x hx
  obtain ⟨h0, _, _, h3⟩ := h.sp x hx
  rw [b64Line_eq, q_base64]
  simp only [List.mem_append, List.mem_cons, List.not_mem_nil, or_false, not_or]
  exact ⟨⟨h.word _ (by simp [fixedWords]) x hx, h0, h.quote path hp x hx⟩, h3⟩

/-! ### CR -/

theorem cr_fixed : Tty.CR ∉ fixedWords.flatten := by decide +kernel

theorem cr_word (w : Bytes) (hw : w ∈ fixedWords) : Tty.CR ∉ w :=
  fun hm => cr_fixed (List.mem_flatten.mpr ⟨w, hw, hm⟩)

theorem cr_quote (s : Bytes) (h : Tty.CR ∉ s) : Tty.CR ∉ shlexQuote s :=
  fun hm => h ((mem_shlexQuote Tty.CR (by decide) (by decide) s).mp hm)

theorem cr_printfLine (path data : Bytes) (hp : Tty.CR ∉ path) (hd : Tty.CR ∉ data) : Tty.CR ∉ printfLine path data := by
  rw [printfLine_eq, q_printf, q_fmt]
  simp only [List.mem_append, List.mem_cons, not_or]
  have hsp : ¬ Tty.CR = SP := by decide
  exact ⟨cr_word _ (by simp [fixedWords]), hsp, cr_word _ (by simp [fixedWords]), hsp, cr_quote data hd, hsp,
    cr_word GT (by simp [fixedWords]), cr_quote path hp⟩

theorem cr_teeLine (path : Bytes) (hp : Tty.CR ∉ path) : Tty.CR ∉ teeLine path := by
  rw [teeLine_eq, q_tee]
  simp only [List.mem_append, List.mem_cons, not_or]
  have hsp : ¬ Tty.CR = SP := by decide
  exact ⟨cr_word _ (by simp [fixedWords]), hsp, cr_quote path hp, hsp, cr_word GT (by simp [fixedWords]),
    cr_word devNull (by simp [fixedWords])⟩

theorem cr_b64TeeLine (path : Bytes) (hp : Tty.CR ∉ path) : Tty.CR ∉ b64TeeLine path := by
  rw [b64TeeLine_eq, q_base64, q_d, q_dash, q_tee]
  simp only [List.mem_append, List.mem_cons, not_or]
  have hsp : ¬ Tty.CR = SP := by decide
  exact ⟨cr_word _ (by simp [fixedWords]), hsp, cr_word _ (by simp [fixedWords]), hsp, cr_word _ (by simp [fixedWords]), hsp,
    cr_word _ (by simp [fixedWords]), hsp, cr_word _ (by simp [fixedWords]), hsp, cr_quote path hp, hsp,
    cr_word GT (by simp [fixedWords]), cr_word devNull (by simp [fixedWords])⟩

end Files
