import TbotVerif.Props.EnvRemote
/-! `exec` / `exec0` against the reactive remote, in sync before and after (DESIGN C01 T4/T5 in the
    reactive setting), for every fragmentation oracle. -/

namespace Env
open Chan EnvChan

/-! ### the fixed lines -/

theorem step_status (r : Remote) (f : Frame) (fs : List Frame) (ext : Bytes × Nat) (h : r.frames = f :: fs) :
    step r ext statusLine = (dec r.last ++ [LF], r.setLast 0) := by
  unfold step
  rw [h]
  have h1 : wordsX f.env (statusLine.length + 1) statusLine = none := by rfl
  simp only [h1]
  rfl

theorem step_wait (r : Remote) (f : Frame) (fs : List Frame) (ext : Bytes × Nat) (h : r.frames = f :: fs) :
    step r ext waitLine = (b!"TBOTLOGIN\n", r.setLast 0) := by
  unfold step
  rw [h]
  have h1 : wordsX f.env (waitLine.length + 1) waitLine = none := by rfl
  simp only [h1]
  rfl

theorem step_opts (r : Remote) (f : Frame) (fs : List Frame) (ext : Bytes × Nat) (h : r.frames = f :: fs) :
    step r ext optsLine = (f.opts ++ [LF], r.setLast 0) := by
  unfold step
  rw [h]
  have h1 : wordsX f.env (optsLine.length + 1) optsLine = none := by rfl
  simp only [h1]
  rfl

theorem step_edit (r : Remote) (f : Frame) (fs : List Frame) (ext : Bytes × Nat) (h : r.frames = f :: fs) :
    step r ext editLine = ([], r.setLast 0) := by
  unfold step
  rw [h]
  have h1 : wordsX f.env (editLine.length + 1) editLine = none := by rfl
  simp only [h1]
  rfl

/-! ### the exit status on the wire (finite tables: 256 statuses) -/

theorem parseInt_dec : ∀ n : Fin 256, Shell.parseInt (text (Tty.cook (dec n.val ++ [LF]))) = some n.val := by
  decide +kernel

theorem no84_dec : ∀ n : Fin 256, (Tty.cook (dec n.val ++ [LF])).contains 84 = false := by
  decide +kernel

theorem status_onlyAtEnd (ash : Bool) (n : Nat) (h : n < 256) :
    OnlyAtEnd (prompt ash) (Tty.cook (dec n ++ [LF]) ++ prompt ash) := by
  apply onlyAtEnd_prompt
  have := no84_dec ⟨n, h⟩
  intro hm
  have h2 : (Tty.cook (dec n ++ [LF])).contains 84 = true := by simpa using hm
  simp only at this
  rw [this] at h2; exact absurd h2 (by simp)

/-- the current frame shows the prompt -/
def Shows (P : Bytes) (r : Remote) : Prop := ∃ f fs, r.frames = f :: fs ∧ f.ps1 = P

theorem Shows.alive {P : Bytes} {r : Remote} (h : Shows P r) : r.frames.isEmpty = false := by
  obtain ⟨f, fs, hf, _⟩ := h; rw [hf]; rfl

theorem Shows.setLast {P : Bytes} {r : Remote} (h : Shows P r) (n : Nat) : Shows P (r.setLast n) := h

theorem InSync.shows {ash : Bool} {w : World} (h : InSync ash w) : Shows (prompt ash) w.rem := by
  cases hf : w.rem.frames with
  | nil => have := h.alive; rw [hf] at this; simp at this
  | cons f fs => exact ⟨f, fs, hf, h.ps1 f (by rw [hf]; simp)⟩

theorem answers_status {P : Bytes} {r : Remote} (h : Shows P r) :
    Answers P r ([], 0) statusLine (dec r.last ++ [LF]) (r.setLast 0) := by
  obtain ⟨f, fs, hf, hp⟩ := h
  refine ⟨by rw [hf]; rfl, ?_, ⟨f, fs, hf, hp⟩⟩
  have : Tty.input statusLine = statusLine := by decide
  rw [this]; exact step_status r f fs _ hf

theorem statusLine_ok (ash : Bool) : Chan.forbidden (blacklist ash) (statusLine ++ [CR]) = false := by
  cases ash <;> decide

/-- `posix_fetch_return_code` in sync: returns `$?` -/
theorem fetchRetcode_ok {ash : Bool} (w : World) (hs : InSync ash w) :
    ∃ w', fetchRetcode w = (.ok w.rem.last, w') ∧ InSync ash w' ∧ w'.rem = w.rem.setLast 0 ∧ w'.oracle = w.oracle := by
  have ha := answers_status hs.shows
  obtain ⟨w1, hsl, hrem1, hor1, hq1, hsame1, hflat1⟩ := sendlineR_rb_ok w hs (statusLine_ok ash) ha
  obtain ⟨ch2, hrup, hsc2, hsame2⟩ := rup_ok (prompt ash) _ w1.ch hq1 (prompt_ne ash)
    (by rw [hsame1.prompt, hs.chPrompt]) hflat1 (status_onlyAtEnd ash _ hs.last)
  refine ⟨{ w1 with ch := ch2 }, ?_, ?_, hrem1, hor1⟩
  · unfold fetchRetcode
    rw [hsl]
    simp only [hrup, List.length_append, Nat.add_sub_cancel, List.take_left']
    have := parseInt_dec ⟨w.rem.last, hs.last⟩
    simp only at this
    rw [this]
  · have hsame := hsame1.trans hsame2
    exact {
      quiet := quiet_of_nil hs.quiet hsame hsc2
      script := hsc2
      chPrompt := by show ch2.prompt = _; rw [hsame.prompt, hs.chPrompt]
      chBl := by show ch2.blacklist = _; rw [hsame.blacklist, hs.chBl]
      remAsh := by show w1.rem.ash = _; rw [hrem1]; exact hs.remAsh
      alive := by show w1.rem.frames.isEmpty = _; rw [hrem1]; exact hs.alive
      ps1 := by show ∀ f ∈ w1.rem.frames, _; rw [hrem1]; exact hs.ps1
      last := by show w1.rem.last < 256; rw [hrem1]; exact (by decide : (0 : Nat) < 256) }

/-- what a command leaves behind, as far as `InSync` is concerned -/
structure Lands (ash : Bool) (r' : Remote) : Prop where
  remAsh : r'.ash = ash
  alive : r'.frames.isEmpty = false
  ps1 : ∀ f ∈ r'.frames, f.ps1 = prompt ash
  last : r'.last < 256

theorem Lands.shows {ash : Bool} {r' : Remote} (h : Lands ash r') : Shows (prompt ash) r' := by
  cases hf : r'.frames with
  | nil => have := h.alive; rw [hf] at this; simp at this
  | cons f fs => exact ⟨f, fs, hf, h.ps1 f (by rw [hf]; simp)⟩

/-- **`exec` is exact** (reactive remote, every fragmentation oracle): in sync, for a line without
    black-listed byte that the remote answers with output `out` and status `r'.last`, whose cooked
    output does not contain the prompt at a piece end: the result is `(status, text (cook out))`,
    and the world is in sync again with the remote in the state the command left. -/
theorem exec_ok {ash : Bool} {ext : Bytes × Nat} {line out : Bytes} {r' : Remote} (w : World)
    (hs : InSync ash w) (hfb : Chan.forbidden (blacklist ash) (line ++ [CR]) = false)
    (ha : Answers (prompt ash) w.rem ext line out r') (hl : Lands ash r')
    (hend : OnlyAtEnd (prompt ash) (Tty.cook out ++ prompt ash)) :
    ∃ w', exec line ext w = (.ok (r'.last, text (Tty.cook out)), w') ∧ InSync ash w'
      ∧ w'.rem = r'.setLast 0 ∧ w'.oracle = w.oracle := by
  obtain ⟨w1, hsl, hrem1, hor1, hq1, hsame1, hflat1⟩ := sendlineR_rb_ok w hs hfb ha
  obtain ⟨hsameE, hscE⟩ := streamEnter_same 0 false w1.ch
  have hqE : Quiet (streamEnter 0 false w1.ch).2 := hq1.of_same hsameE (by unfold WF; rw [hscE]; exact hq1.wf)
  obtain ⟨ch2, hrup, hsc2, hsame2⟩ := rup_ok (prompt ash) _ (streamEnter 0 false w1.ch).2 hqE (prompt_ne ash)
    (by rw [hsameE.prompt, hsame1.prompt, hs.chPrompt]) (by rw [hscE]; exact hflat1) hend
  obtain ⟨hsameX, hscX⟩ := streamExit_same 0 (streamEnter 0 false w1.ch).1 ch2
  have hsame := ((hsame1.trans hsameE).trans hsame2).trans hsameX
  have hs2 : InSync ash { w1 with ch := streamExit 0 (streamEnter 0 false w1.ch).1 ch2 } := {
    quiet := quiet_of_nil hs.quiet hsame (by rw [hscX]; exact hsc2)
    script := by show (streamExit _ _ ch2).script = []; rw [hscX]; exact hsc2
    chPrompt := by show (streamExit _ _ ch2).prompt = _; rw [hsame.prompt, hs.chPrompt]
    chBl := by show (streamExit _ _ ch2).blacklist = _; rw [hsame.blacklist, hs.chBl]
    remAsh := by show w1.rem.ash = _; rw [hrem1]; exact hl.remAsh
    alive := by show w1.rem.frames.isEmpty = _; rw [hrem1]; exact hl.alive
    ps1 := by show ∀ f ∈ w1.rem.frames, _; rw [hrem1]; exact hl.ps1
    last := by show w1.rem.last < 256; rw [hrem1]; exact hl.last }
  obtain ⟨w', hfr, hs', hrem', hor'⟩ := fetchRetcode_ok _ hs2
  refine ⟨w', ?_, hs', by rw [hrem']; show w1.rem.setLast 0 = _; rw [hrem1], by rw [hor']; exact hor1⟩
  unfold exec
  rw [hsl]
  simp only [hrup, List.length_append, Nat.add_sub_cancel, List.take_left', hfr]
  show (Except.ok (w1.rem.last, _), w') = _
  rw [hrem1]

/-- `exec` of a line with a black-listed byte: `IllegalDataException`, nothing happened -/
theorem exec_illegal {ash : Bool} (line : Bytes) (ext : Bytes × Nat) (w : World) (hs : InSync ash w)
    (hfb : Chan.forbidden (blacklist ash) (line ++ [CR]) = true) :
    exec line ext w = (.error (.chan .illegal), w) := by
  unfold exec
  rw [sendlineR_illegal line true ext w (by rw [hs.chBl]; exact hfb)]

/-- `exec0`: the output if the status is 0, `CommandFailure` otherwise -/
theorem exec0_ok {ash : Bool} {ext : Bytes × Nat} {line out : Bytes} {r' : Remote} (w : World)
    (hs : InSync ash w) (hfb : Chan.forbidden (blacklist ash) (line ++ [CR]) = false)
    (ha : Answers (prompt ash) w.rem ext line out r') (hl : Lands ash r')
    (hend : OnlyAtEnd (prompt ash) (Tty.cook out ++ prompt ash)) :
    ∃ w', exec0 line ext w = ((if r'.last = 0 then .ok (text (Tty.cook out)) else .error (.commandFailure r'.last)), w')
      ∧ InSync ash w' ∧ w'.rem = r'.setLast 0 ∧ w'.oracle = w.oracle := by
  obtain ⟨w', hex, hs', hrem', hor'⟩ := exec_ok w hs hfb ha hl hend
  refine ⟨w', ?_, hs', hrem', hor'⟩
  unfold exec0
  rw [hex]
  simp only
  split <;> rfl

end Env
