import TbotVerif.Props.C02Extra
import TbotVerif.Props.C06
import TbotVerif.Model.Board
/-! Channel-level lemmas for C18: ONE package (`Rd`) of what a reading channel method does to
    the state when no death string is registered and the prompt is shown to attached streams
    (the setting of board bring-up) — frame, forwarded log, clock — and, for the two wait loops
    (`read_until_prompt`, `expect`), when exactly they return. -/

namespace Board
open Chan Spec C06

/-! ### the package -/

/-- what is forwarded to the attached streams for the delivered chunks `ds` -/
def fwdOf (streams : List Nat) (ds : List Bytes) : List (Nat × Bytes) :=
  ds.flatMap fun d => streams.map fun i => (i, d)

theorem fwdOf_append (st : List Nat) (a b : List Bytes) : fwdOf st (a ++ b) = fwdOf st a ++ fwdOf st b := by
  simp [fwdOf]

/-- between `s` and `s'` the transport requests `recs` were made under the deadline `(t0, T)` -/
structure Rd (T : Option Nat) (t0 : Nat) (s s' : St) (recs : List ReadRec) : Prop where
  frame : ReadFrame s s' recs
  deaths : s'.deaths = []
  fwd : s'.fwd = s.fwd ++ fwdOf s.streams (dataOf recs)
  last : lastT1 s.now recs = s'.now
  dead : ∀ T', T = some T' → s.now ≤ t0 + T' → s'.now ≤ t0 + T'

theorem dataOf_append (a b : List ReadRec) : dataOf (a ++ b) = dataOf a ++ dataOf b := by
  simp [dataOf, List.filterMap_append]

theorem Rd.refl (T : Option Nat) (t0 : Nat) (s : St) (hd : s.deaths = []) : Rd T t0 s s [] :=
  { frame := ReadFrame.refl s, deaths := hd, fwd := by simp [fwdOf, dataOf], last := rfl,
    dead := fun _ _ h => h }

theorem Rd.trans {T : Option Nat} {t0 : Nat} {a b c : St} {r1 r2 : List ReadRec}
    (h1 : Rd T t0 a b r1) (h2 : Rd T t0 b c r2) : Rd T t0 a c (r1 ++ r2) :=
  { frame := h1.frame.trans h2.frame
    deaths := h2.deaths
    fwd := by rw [h2.fwd, h1.fwd, h1.frame.streams, dataOf_append, fwdOf_append, List.append_assoc]
    last := by rw [lastT1_append, h1.last, h2.last]
    dead := fun T' hT ha => h2.dead T' hT (h1.dead T' hT ha) }

/-- the setting: well-formed script, positive chunk size, no death strings, prompt shown -/
structure Calm (s : St) : Prop where
  wf : WF s
  chunk : 0 < s.chunk
  deaths : s.deaths = []
  lp : s.logPrompt = true

theorem Rd.calm {T : Option Nat} {t0 : Nat} {s s' : St} {recs : List ReadRec} (h : Rd T t0 s s' recs)
    (hc : Calm s) : Calm s' :=
  ⟨h.frame.wf hc.wf, by rw [h.frame.chunk]; exact hc.chunk, h.deaths, by rw [h.frame.logPrompt]; exact hc.lp⟩

theorem writeStream_shown (b : Bytes) (s : St) (hlp : s.logPrompt = true) :
    (writeStream b s).fwd = s.fwd ++ s.streams.map (fun i => (i, b)) := by
  unfold writeStream
  split
  · rename_i he
    have : s.streams = [] := List.isEmpty_iff.mp he
    simp [this]
  · simp [hlp, emit]

/-! ### one resumption of `read_iter` -/

/-- the shape of the outcome of one resumption, beyond `Rd` -/
def StepOk (ri : RI) (s : St) (st : Step) (ri' : RI) (s' : St) (recs : List ReadRec) : Prop :=
  match st with
  | .done => recs = [] ∧ ri.max = some ri.got
  | .chunk b => (∃ rec, recs = [rec] ∧ rec.data = some b) ∧ (0 < ri.maxRead s.chunk → b ≠ [])
      ∧ ri' = { ri with got := ri.got + b.length, started := true }
  | .err e => (∀ r ∈ recs, r.data = none) ∧ s'.script = s.script
      ∧ ((e = .timeout ∧ ∃ T', ri.timeout = some T' ∧ ri.t0 + T' ≤ s'.now) ∨ (e = .hang ∧ ri.timeout = none))

theorem riNext_rd (ri : RI) (s : St) (hc : Calm s) (hle : ri.t0 ≤ s.now) :
    ∃ recs, Rd ri.timeout ri.t0 s (riNext ri s).2.2 recs
      ∧ StepOk ri s (riNext ri s).1 (riNext ri s).2.1 (riNext ri s).2.2 recs
      ∧ (riNext ri s).2.1.t0 = ri.t0 ∧ (riNext ri s).2.1.timeout = ri.timeout
      ∧ (riNext ri s).2.1.max = ri.max := by
  obtain ⟨trecs, ht, e1, e2, e3, -⟩ := riNext_timed True ri s hle
  refine (fun ⟨r, a, b⟩ => ⟨r, a, b, e1, e2, e3⟩ : (∃ recs, Rd ri.timeout ri.t0 s (riNext ri s).2.2 recs
      ∧ StepOk ri s (riNext ri s).1 (riNext ri s).2.1 (riNext ri s).2.2 recs) → _) ?_
  clear e1 e2 e3
  have hout := riNext_out ri s
  generalize riNext ri s = out at hout ht
  obtain ⟨st, ri', s'⟩ := out
  simp only at hout ht ⊢
  cases hout with
  | done h1 h2 => exact ⟨[], Rd.refl _ _ s hc.deaths, rfl, h1⟩
  | expired hnd hrem =>
    refine ⟨[], Rd.refl _ _ s hc.deaths, by simp, rfl, Or.inl ⟨rfl, ?_⟩⟩
    exact remaining_none hrem hle
  | ioErr rem rec s' e hnd hrem hio =>
    have hrecs : trecs = [rec] := List.append_cancel_left (ht.reads.symm.trans hio.frame.reads)
    subst hrecs
    obtain ⟨hnone, hk, htmo, hhang, hscript⟩ := hio.err e rfl
    refine ⟨[rec], ⟨hio.frame, by rw [hio.deaths]; exact hc.deaths, ?_, ht.last trivial, ht.dead trivial⟩, ?_, hscript, ?_⟩
    · rw [hio.fwd, dataOf_cons_none _ _ hnone]; simp [fwdOf, dataOf]
    · intro r hr
      simp only [List.mem_singleton] at hr
      subst hr; exact hnone
    · rcases hk with rfl | rfl
      · exact Or.inl ⟨rfl, ht.tmo rfl⟩
      · refine Or.inr ⟨rfl, ?_⟩
        have h1 := (hhang rfl).1
        subst h1
        cases hT : ri.timeout with
        | none => rfl
        | some T =>
          obtain ⟨_, hs⟩ := remaining_some hrem
          have := (hs T hT).2
          simp at this
  | chunk rem rec s1 b hnd hrem hio hchk =>
    have hd1 : (writeStream b s1).deaths = [] := by rw [C06.writeStream_deaths, hio.deaths]; exact hc.deaths
    have hfr := chunk_frame hio
    rw [check_nodeaths b _ hd1] at hfr ht ⊢
    simp only at hfr ht ⊢
    have hrecs : trecs = [rec] := List.append_cancel_left (ht.reads.symm.trans hfr.reads)
    subst hrecs
    obtain ⟨hdata, _, hne⟩ := hio.ok b rfl
    refine ⟨[rec], ⟨hfr, hd1, ?_, ht.last trivial, ht.dead trivial⟩, ⟨rec, rfl, hdata⟩, fun h => hne hc.wf h, rfl⟩
    rw [writeStream_shown b s1 (by rw [hio.frame.logPrompt]; exact hc.lp), hio.fwd, hio.frame.streams,
      dataOf_cons_some _ _ _ hdata]
    simp [fwdOf, dataOf]
  | death rem rec s1 b x m hnd hrem hio hchk =>
    have hd1 : (writeStream b s1).deaths = [] := by rw [C06.writeStream_deaths, hio.deaths]; exact hc.deaths
    rw [check_nodeaths b _ hd1] at hchk
    simp at hchk


theorem dataOf_all_none (recs : List ReadRec) (h : ∀ r ∈ recs, r.data = none) : dataOf recs = [] := by
  induction recs with
  | nil => rfl
  | cons r rs ih =>
    rw [dataOf_cons_none _ _ (h r (List.mem_cons_self ..))]
    exact ih fun x hx => h x (List.mem_cons_of_mem _ hx)

theorem riNext_prompt (ri : RI) (s : St) : (riNext ri s).2.2.prompt = s.prompt := by
  have hout := riNext_out ri s
  generalize riNext ri s = out at hout
  obtain ⟨st, ri', s'⟩ := out
  simp only at hout ⊢
  cases hout with
  | done _ _ => rfl
  | expired _ _ => rfl
  | ioErr rem rec s' e _ _ hio => exact hio.frame.prompt
  | chunk rem rec s1 b _ _ hio _ => exact (chunk_frame hio).prompt
  | death rem rec s1 b x m _ _ hio _ => exact (chunk_frame hio).prompt

/-! ### the wait loops -/

/-- the common shape of the loops of `read_until_prompt` and `expect`: pull chunks until `test`
    accepts the buffer -/
def waitLoop {α : Type} (test : Bytes → Option α) : Nat → Bytes → RI → St → Res (α × Bytes)
  | 0, _, _, s => (.error .fuel, s)
  | f + 1, buf, ri, s =>
    match riNext ri s with
    | (.done, _, s) => (.error .assertion, s)
    | (.err e, _, s) => (.error e, s)
    | (.chunk b, ri, s) =>
      match test (buf ++ b) with
      | some a => (.ok (a, buf ++ b), s)
      | none => waitLoop test f (buf ++ b) ri s

/-- the outcome of a wait: the frame, and when it returns — on the first delivery after which the
    buffer passes the test (every request before it delivered data), or with `TimeoutError` not
    before the deadline, or blocked for ever when there is no deadline -/
structure WaitOut (f : Bytes → Bool) (T : Option Nat) (t0 : Nat) (buf : Bytes) (s s' : St)
    (err : Option Exc) (recs : List ReadRec) : Prop where
  rd : Rd T t0 s s' recs
  ok : err = none → hitsOnlyAtEnd f buf (dataOf recs) = true ∧ ∀ x ∈ recs, x.data.isSome = true
  bad : ∀ e, err = some e → neverHits f buf (dataOf recs) = true
        ∧ ((e = .timeout ∧ ∃ T', T = some T' ∧ t0 + T' ≤ s'.now) ∨ (e = .hang ∧ T = none))

def errOf {α : Type} : Except Exc α → Option Exc
  | .ok _ => none
  | .error e => some e

theorem waitLoop_out {α : Type} (test : Bytes → Option α) : ∀ (f : Nat) (buf : Bytes) (ri : RI) (s : St),
    ri.max = none → bytesLeft s < f → Calm s → ri.t0 ≤ s.now →
    ∃ recs, WaitOut (fun b => (test b).isSome) ri.timeout ri.t0 buf s (waitLoop test f buf ri s).2
        (errOf (waitLoop test f buf ri s).1) recs
      ∧ ∀ a full, (waitLoop test f buf ri s).1 = .ok (a, full) →
          full = buf ++ (dataOf recs).flatten ∧ test full = some a := by
  intro f
  induction f with
  | zero => intro buf ri s _ hf; omega
  | succ f ih =>
    intro buf ri s hmax hf hc hle
    unfold waitLoop
    obtain ⟨recs, hrd, hstep, e1, e2, e3⟩ := riNext_rd ri s hc hle
    generalize riNext ri s = out at hrd hstep e1 e2 e3
    obtain ⟨st, ri', s'⟩ := out
    simp only at hrd hstep e1 e2 e3 ⊢
    cases st with
    | done =>
      have := hstep.2
      rw [hmax] at this
      simp at this
    | err e =>
      obtain ⟨hnone, _, hk⟩ := hstep
      refine ⟨recs, ⟨hrd, by simp [errOf], ?_⟩, by simp⟩
      intro e' he'
      simp only [errOf, Option.some.injEq] at he'
      subst he'
      rw [dataOf_all_none recs hnone]
      exact ⟨rfl, hk⟩
    | chunk b =>
      obtain ⟨⟨rec, hrecs, hdata⟩, hne, hri⟩ := hstep
      subst hrecs
      have hbne : b ≠ [] := hne (by rw [maxRead_none _ _ hmax]; exact hc.chunk)
      have hd1 : dataOf [rec] = [b] := by rw [dataOf_cons_some _ _ _ hdata]; rfl
      simp only
      cases htest : test (buf ++ b) with
      | some a =>
        simp only
        refine ⟨[rec], ⟨hrd, fun _ => ⟨?_, ?_⟩, by simp [errOf]⟩, ?_⟩
        · rw [hd1]; simp [hitsOnlyAtEnd, htest]
        · intro x hx
          simp only [List.mem_singleton] at hx
          subst hx; rw [hdata]; rfl
        · intro a' full h
          simp only [Except.ok.injEq, Prod.mk.injEq] at h
          obtain ⟨rfl, rfl⟩ := h
          rw [hd1]
          exact ⟨by simp, htest⟩
      | none =>
        simp only
        have hc' := hrd.calm hc
        have hbytes := hrd.frame.bytes
        rw [hd1] at hbytes
        simp only [List.flatten_cons, List.flatten_nil, List.append_nil] at hbytes
        have hblen : 0 < b.length := List.length_pos_iff.mpr hbne
        obtain ⟨recs2, hw2, hfull2⟩ := ih (buf ++ b) ri' s' (by rw [e3]; exact hmax) (by omega) hc'
          (by rw [e1]; exact Nat.le_trans hle hrd.frame.now)
        rw [e1, e2] at hw2
        refine ⟨rec :: recs2, ⟨hrd.trans hw2.rd, fun h => ?_, fun e h => ?_⟩, ?_⟩
        · obtain ⟨hhit, hall⟩ := hw2.ok h
          refine ⟨?_, ?_⟩
          · rw [dataOf_cons_some _ _ _ hdata, Spec.hitsOnlyAtEnd_cons]
            have hne2 : dataOf recs2 ≠ [] := by
              intro hc2; rw [hc2] at hhit; simp at hhit
            simp [hne2, htest, hhit]
          · intro x hx
            rcases List.mem_cons.mp hx with rfl | hx
            · rw [hdata]; rfl
            · exact hall x hx
        · obtain ⟨hnever, hk⟩ := hw2.bad e h
          refine ⟨?_, hk⟩
          rw [dataOf_cons_some _ _ _ hdata, Spec.neverHits_cons]
          simp [htest, hnever]
        · intro a full h
          obtain ⟨h1, h2⟩ := hfull2 a full h
          refine ⟨?_, h2⟩
          rw [h1, dataOf_cons_some _ _ _ hdata]
          simp

theorem rupLoop_eq (P : Pat) : ∀ (f : Nat) (buf : Bytes) (ri : RI) (s : St), s.prompt = some P →
    rupLoop f buf ri s =
      (match waitLoop (promptEnd P) f buf ri s with
       | (.ok (n, full), s') => (.ok (full.take n, full), s')
       | (.error e, s') => (.error e, s')) := by
  intro f
  induction f with
  | zero => intro buf ri s _; rfl
  | succ f ih =>
    intro buf ri s hp
    unfold rupLoop waitLoop
    have hpr := riNext_prompt ri s
    generalize riNext ri s = out at hpr
    obtain ⟨st, ri', s'⟩ := out
    simp only at hpr
    cases st with
    | done => rfl
    | err e => rfl
    | chunk b =>
      simp only [hpr, hp]
      cases promptEnd P (buf ++ b) with
      | some n => rfl
      | none => exact ih (buf ++ b) ri' s' (by rw [hpr]; exact hp)

theorem expectLoop_eq (pats : List Pat) : ∀ (f : Nat) (buf : Bytes) (ri : RI) (s : St),
    expectLoop f pats buf ri s =
      (match waitLoop (fun b => firstMatch b 0 pats) f buf ri s with
       | (.ok (m, full), s') => (.ok { idx := m.1, s := m.2.1, e := m.2.2, buf := full }, s')
       | (.error e, s') => (.error e, s')) := by
  intro f
  induction f with
  | zero => intro buf ri s; rfl
  | succ f ih =>
    intro buf ri s
    unfold expectLoop waitLoop
    generalize riNext ri s = out
    obtain ⟨st, ri', s'⟩ := out
    cases st with
    | done => rfl
    | err e => rfl
    | chunk b =>
      simp only
      cases firstMatch (buf ++ b) 0 pats with
      | some m => rfl
      | none => exact ih (buf ++ b) ri' s'


/-! ### the methods -/

theorem Calm.withPrompt {s : St} (h : Calm s) (p : Option Pat) : Calm { s with prompt := p } :=
  ⟨h.wf, h.chunk, h.deaths, h.lp⟩

/-- a per-call prompt: installed for the call, the previous one restored afterwards -/
theorem Rd.withPrompt {T : Option Nat} {t0 : Nat} {s s' : St} {recs : List ReadRec} {p : Option Pat}
    (h : Rd T t0 { s with prompt := p } s' recs) : Rd T t0 s { s' with prompt := s.prompt } recs :=
  { frame := {
      reads := h.frame.reads, chunk := h.frame.chunk, slice := h.frame.slice, prompt := rfl,
      blacklist := h.frame.blacklist, accept := h.frame.accept, writes := h.frame.writes,
      slowDelay := h.frame.slowDelay, slowChunk := h.frame.slowChunk, streams := h.frame.streams,
      logPrompt := h.frame.logPrompt, flat := h.frame.flat, now := h.frame.now, wf := fun hw => h.frame.wf hw }
    deaths := h.deaths, fwd := h.fwd, last := h.last, dead := h.dead }

theorem WaitOut.withPrompt {f : Bytes → Bool} {T : Option Nat} {t0 : Nat} {buf : Bytes} {s s' : St}
    {err : Option Exc} {recs : List ReadRec} {p : Option Pat}
    (h : WaitOut f T t0 buf { s with prompt := p } s' err recs) :
    WaitOut f T t0 buf s { s' with prompt := s.prompt } err recs :=
  { rd := h.rd.withPrompt, ok := h.ok, bad := h.bad }

/-- `read_until_prompt` waiting for `P` (the per-call prompt, anchored, or the configured one) -/
theorem rup_out (p : Option Pat) (t : Option Nat) (s : St) (hc : Calm s) (P : Pat)
    (hP : effPrompt p s.prompt = some P) :
    ∃ recs, WaitOut (fun b => (promptEnd P b).isSome) t s.now [] s (readUntilPrompt p t s).2
      (errOf (readUntilPrompt p t s).1) recs := by
  unfold readUntilPrompt
  cases p with
  | none =>
    simp only [effPrompt] at hP
    simp only
    rw [rupLoop_eq P _ _ _ _ hP]
    obtain ⟨recs, hw, -⟩ := waitLoop_out (promptEnd P) (fuelFor s) [] (riStart none t s) s rfl
      (by unfold fuelFor; omega) hc (Nat.le_refl _)
    refine ⟨recs, ?_⟩
    generalize waitLoop (promptEnd P) (fuelFor s) [] (riStart none t s) s = w at hw
    obtain ⟨r, s'⟩ := w
    cases r with
    | ok v => obtain ⟨n, full⟩ := v; exact hw
    | error e => exact hw
  | some p =>
    simp only [effPrompt, Option.some.injEq] at hP
    subst hP
    simp only
    generalize hs1 : ({ s with prompt := some (anchor p) } : St) = s1
    have hp1 : s1.prompt = some (anchor p) := by subst hs1; rfl
    have hc1 : Calm s1 := by subst hs1; exact hc.withPrompt _
    have hn1 : s1.now = s.now := by subst hs1; rfl
    rw [rupLoop_eq (anchor p) _ _ _ _ hp1]
    obtain ⟨recs, hw, -⟩ := waitLoop_out (promptEnd (anchor p)) (fuelFor s1) [] (riStart none t s1) s1 rfl
      (by unfold fuelFor; omega) hc1 (Nat.le_refl _)
    refine ⟨recs, ?_⟩
    have e1 : (riStart none t s1).t0 = s.now := hn1
    have e2 : (riStart none t s1).timeout = t := rfl
    rw [e1, e2] at hw
    generalize waitLoop (promptEnd (anchor p)) (fuelFor s1) [] (riStart none t s1) s1 = w at hw
    obtain ⟨r, s'⟩ := w
    subst hs1
    cases r with
    | ok v => obtain ⟨n, full⟩ := v; exact hw.withPrompt
    | error e => exact hw.withPrompt

/-- `expect` -/
theorem expect_out (pats : List Pat) (t : Option Nat) (s : St) (hc : Calm s) :
    ∃ recs, WaitOut (fun b => (firstMatch b 0 pats).isSome) t s.now [] s (expect pats t s).2
      (errOf (expect pats t s).1) recs := by
  unfold expect
  rw [expectLoop_eq]
  obtain ⟨recs, hw, -⟩ := waitLoop_out (fun b => firstMatch b 0 pats) (fuelFor s) [] (riStart none t s) s rfl
    (by unfold fuelFor; omega) hc (Nat.le_refl _)
  refine ⟨recs, ?_⟩
  generalize waitLoop (fun b => firstMatch b 0 pats) (fuelFor s) [] (riStart none t s) s = w at hw
  obtain ⟨r, s'⟩ := w
  cases r with
  | ok v => obtain ⟨m, full⟩ := v; exact hw
  | error e => exact hw

/-- pulling a `read_iter` -/
theorem riTake_rd : ∀ (f : Nat) (k : Option Nat) (ri : RI) (s : St) (acc : List Bytes), Calm s → ri.t0 ≤ s.now →
    ∃ recs, Rd ri.timeout ri.t0 s (riTake f k ri s acc).2 recs
      ∧ (riTake f k ri s acc).1.1 = acc ++ dataOf recs
      ∧ ∀ e, (riTake f k ri s acc).1.2 = some e → e = .timeout ∨ e = .hang ∨ e = .fuel := by
  intro f
  induction f with
  | zero =>
    intro k ri s acc hc _
    exact ⟨[], Rd.refl _ _ s hc.deaths, by simp [riTake, dataOf], fun e h => by simp [riTake] at h; exact Or.inr (Or.inr h.symm)⟩
  | succ f ih =>
    intro k ri s acc hc hle
    unfold riTake
    split
    · exact ⟨[], Rd.refl _ _ s hc.deaths, by simp [dataOf], fun e h => by simp at h⟩
    · obtain ⟨recs, hrd, hstep, e1, e2, e3⟩ := riNext_rd ri s hc hle
      generalize riNext ri s = out at hrd hstep e1 e2 e3
      obtain ⟨st, ri', s'⟩ := out
      simp only at hrd hstep e1 e2 e3 ⊢
      cases st with
      | done =>
        obtain ⟨rfl, _⟩ := hstep
        exact ⟨[], hrd, by simp [dataOf], fun e h => by simp at h⟩
      | err e =>
        obtain ⟨hnone, _, hk⟩ := hstep
        refine ⟨recs, hrd, by rw [dataOf_all_none recs hnone]; simp, fun e' h => ?_⟩
        simp only [Option.some.injEq] at h
        subst h
        rcases hk with ⟨h, _⟩ | ⟨h, _⟩
        · exact Or.inl h
        · exact Or.inr (Or.inl h)
      | chunk b =>
        obtain ⟨⟨rec, hrecs, hdata⟩, _, _⟩ := hstep
        subst hrecs
        simp only
        obtain ⟨recs2, hrd2, hcs2, herr2⟩ := ih (k.map (· - 1)) ri' s' (acc ++ [b]) (hrd.calm hc)
          (by rw [e1]; exact Nat.le_trans hle hrd.frame.now)
        rw [e1, e2] at hrd2
        refine ⟨rec :: recs2, hrd.trans hrd2, ?_, herr2⟩
        rw [hcs2, dataOf_cons_some _ _ _ hdata]
        simp

/-- `read_until_timeout(T)`: returns at exactly `now + T` -/
theorem rut_out (T : Nat) (s : St) (hc : Calm s) :
    ∃ recs x, (readUntilTimeout (some T) s).1 = .ok x ∧ Rd (some T) s.now s (readUntilTimeout (some T) s).2 recs
      ∧ (readUntilTimeout (some T) s).2.now = s.now + T := by
  obtain ⟨x, hx, hnow⟩ := rut_exact T s hc.wf hc.chunk hc.deaths
  obtain ⟨recs, hrd, -, -⟩ := riTake_rd (fuelFor s) none (riStart none (some T) s) s [] hc (Nat.le_refl _)
  refine ⟨recs, x, hx, ?_, hnow⟩
  have : (readUntilTimeout (some T) s).2 = (riTake (fuelFor s) none (riStart none (some T) s) s []).2 := by
    unfold readUntilTimeout
    generalize riTake (fuelFor s) none (riStart none (some T) s) s [] = w
    obtain ⟨⟨cs, e⟩, s'⟩ := w
    cases e with
    | none => rfl
    | some e => cases e <;> rfl
  rw [this]
  exact hrd

/-- `read(n)` without a timeout: exactly `n` bytes, or blocked for ever -/
theorem readn_out (n : Nat) (s : St) (hc : Calm s) :
    ∃ recs, Rd none s.now s (read (some n) none s).2 recs
      ∧ (∀ b, (read (some n) none s).1 = .ok b → (dataOf recs).flatten.length = n)
      ∧ (∀ e, (read (some n) none s).1 = .error e → e = .hang) := by
  obtain ⟨recs, hrd, hcs, herr⟩ := riTake_rd (fuelFor s) none (riStart (some n) none s) s [] hc (Nat.le_refl _)
  obtain ⟨_, _, _, _, _, hkinds⟩ := C03.read_some_spec n none s hc.wf hc.chunk
  have hnt := read_no_timeout (some n) s
  refine ⟨recs, ?_, ?_, ?_⟩
  · have : (read (some n) none s).2 = (riTake (fuelFor s) none (riStart (some n) none s) s []).2 := by
      unfold Chan.read
      simp only
      generalize riTake (fuelFor s) none (riStart (some n) none s) s [] = w
      obtain ⟨⟨cs, e⟩, s'⟩ := w
      cases e with
      | none => simp only; split <;> rfl
      | some e => rfl
    rw [this]; exact hrd
  · intro b hb
    unfold Chan.read at hb
    simp only at hb
    generalize riTake (fuelFor s) none (riStart (some n) none s) s [] = w at hb hcs
    obtain ⟨⟨cs, e⟩, s'⟩ := w
    simp only [List.nil_append] at hcs
    cases e with
    | some e => simp at hb
    | none =>
      simp only at hb
      split at hb
      · rename_i hlen
        rw [← hcs]
        simpa using hlen
      · simp at hb
  · intro e he
    have hk := (hkinds e he).1
    rcases hk with rfl | rfl | ⟨x, m, rfl⟩
    · exact absurd he hnt
    · rfl
    · exfalso
      unfold Chan.read at he
      simp only at he
      generalize riTake (fuelFor s) none (riStart (some n) none s) s [] = w at he herr
      obtain ⟨⟨cs, e⟩, s'⟩ := w
      cases e with
      | some e =>
        simp only [Except.error.injEq] at he
        subst he
        rcases herr _ rfl with h | h | h <;> cases h
      | none =>
        simp only at he
        split at he <;> simp at he

end Board
