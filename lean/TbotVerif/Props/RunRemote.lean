import TbotVerif.Props.RunOps
/-! C10 — the remote side: how much the tty sends back for what is typed, and facts about the
    regenerated tables (prompts, black-lists, the shell's answer to `echo $?`). -/

namespace Run
open Chan

/-! ### what typing produces -/

theorem readBackLen_cons (c : Byte) (b : Bytes) : Tty.readBackLen (c :: b) = Tty.readBackLen [c] + Tty.readBackLen b := by
  unfold Tty.readBackLen
  simp only [List.length_cons, List.count_cons, List.length_nil, List.count_nil]
  omega

theorem readBackLen_nil : Tty.readBackLen [] = 0 := rfl

theorem echo1_len (c : Byte) : (Tty.echo1 false c).length = Tty.readBackLen [c] := by
  have := Tty.echo_length_noctl [c]
  simpa [Tty.echo] using this

theorem readBackLen_one_le (c : Byte) : Tty.readBackLen [c] ≤ 2 := by
  unfold Tty.readBackLen Tty.CR Tty.LF
  simp only [List.length_cons, List.length_nil, List.count_cons, List.count_nil]
  by_cases h1 : c = 13
  · subst h1; simp
  · by_cases h2 : c = 10
    · subst h2; simp
    · have e1 : (c == 13) = false := by simpa using h1
      have e2 : (c == 10) = false := by simpa using h2
      simp [e1, e2]

theorem readBackLen_plain (c : Byte) (h1 : (c == Tty.CR) = false) (h2 : (c == Tty.LF) = false) :
    Tty.readBackLen [c] = 1 := by
  unfold Tty.readBackLen
  simp only [List.length_cons, List.length_nil, List.count_cons, List.count_nil]
  simp [h1, h2]

/-- extra output when the command ends while something is typed -/
def gain (ps1 : Bytes) (before after : Option Nat) : Nat :=
  if before.isNone && after.isSome then ps1.length else 0

theorem promptIf_len (ps1 : Bytes) (st : Option Nat) : (promptIf ps1 st).length = gain ps1 none st := by
  unfold promptIf gain
  cases st <;> simp

theorem complete_len (ps1 : Bytes) (got : Option Bytes) (m : Rem) (hm : m.status = none) :
    gain ps1 none (complete ps1 got m).2.status ≤ (complete ps1 got m).1.length := by
  unfold complete
  split
  · simp only [List.length_append, promptIf_len]
    omega
  · simp [gain, hm]

/-- one key: the tty sends back at least the echo that `send(read_back=True)` counts on (the
    EOF character is not echoed at all and is excluded), plus the prompt when the command ends -/
theorem key_len (ps1 : Bytes) (c : Byte) (m : Rem) (hc : c ≠ 4) :
    Tty.readBackLen [c] + gain ps1 m.status (key ps1 c m).2.status ≤ (key ps1 c m).1.length := by
  unfold key
  cases hst : m.status with
  | some st =>
    simp only [Option.isSome_some, if_true, echo1_len, gain, hst, Option.isNone_some, Bool.false_and]
    simp
  | none =>
    simp only [Option.isSome_none, Bool.false_eq_true, if_false]
    split
    · rename_i h3
      have h3' : c = 3 := by simpa using h3
      subst h3'
      simp [gain, Tty.readBackLen, Tty.CR, Tty.LF]
      omega
    · split
      · rename_i _ h4
        exact absurd (by simpa using h4) hc
      · split
        · rename_i _ _ hnl
          have hlen := complete_len ps1 (some (m.pb ++ m.lb)) m hst
          have h2 := readBackLen_one_le c
          simp only [List.length_append, List.length_cons, List.length_nil]
          unfold gain at hlen ⊢
          simp only [Option.isNone_none, Bool.true_and] at hlen ⊢
          omega
        · rename_i _ _ hnl
          simp only [Bool.or_eq_true, not_or, Bool.not_eq_true] at hnl
          simp [gain, hst, readBackLen_plain c hnl.1 hnl.2]

theorem key_status_mono (ps1 : Bytes) (c : Byte) (m : Rem) (h : m.status.isSome = true) :
    (key ps1 c m).2.status = m.status := by
  unfold key
  simp [h]

theorem gain_trans (ps1 : Bytes) (a b c : Option Nat) (h : b.isSome = true → c.isSome = true) :
    gain ps1 a c ≤ gain ps1 a b + gain ps1 b c := by
  unfold gain
  cases a <;> cases b <;> cases c <;> simp_all

theorem type_status_mono (ps1 : Bytes) : ∀ (b : Bytes) (m : Rem), m.status.isSome = true →
    (type ps1 b m).2.status = m.status := by
  intro b
  induction b with
  | nil => intro m _; rfl
  | cons c cs ih =>
    intro m h
    simp only [type]
    have h1 := key_status_mono ps1 c m h
    rw [ih _ (by rw [h1]; exact h), h1]

/-- typing: at least `readBackLen` bytes come back, plus the prompt if the command ends -/
theorem type_len (ps1 : Bytes) : ∀ (b : Bytes) (m : Rem), (∀ c ∈ b, c ≠ 4) →
    Tty.readBackLen b + gain ps1 m.status (type ps1 b m).2.status ≤ (type ps1 b m).1.length := by
  intro b
  induction b with
  | nil => intro m _; simp [type, gain, readBackLen_nil]; cases m.status <;> simp
  | cons c cs ih =>
    intro m hb
    simp only [type, List.length_append]
    have h1 := key_len ps1 c m (hb c (List.mem_cons_self ..))
    have h2 := ih (key ps1 c m).2 (fun x hx => hb x (List.mem_cons_of_mem _ hx))
    have h3 := gain_trans ps1 m.status (key ps1 c m).2.status (type ps1 cs (key ps1 c m).2).2.status
      (fun h => by rw [type_status_mono ps1 cs _ h]; exact h)
    rw [readBackLen_cons]
    omega

/-! ### facts about the regenerated tables -/

theorem prompt_ne (c : Case) : prompt c ≠ [] := by
  unfold prompt
  cases c.ash <;> simp [Params.ashPrompt, Params.bashPrompt]

theorem patOk_prompt (c : Case) : C05.PatOk (.lit (prompt c)) := prompt_ne c

/-- `echo $?` may always be written -/
theorem echoStatus_allowed (c : Case) : forbidden (blacklist c) (Shell.echoStatusLine ++ [Tty.CR]) = false := by
  unfold blacklist
  cases c.ash <;> decide +kernel

/-- the shell's answer to `echo $?` (after the echo of the line) never contains the prompt early,
    and is read back as the status — for every exit status a process can have -/
theorem status_table (ash : Bool) : ∀ st, st < 256 →
    promptOk (if ash then Params.ashPrompt else Params.bashPrompt)
        (Tty.cook (Shell.statusBytes st ++ [Tty.LF]) ++ (if ash then Params.ashPrompt else Params.bashPrompt)) (some 0) = true
      ∧ Shell.parseInt (text (Tty.cook (Shell.statusBytes st ++ [Tty.LF]))) = some st := by
  cases ash <;> decide +kernel

theorem respStatus_eq (ps1 : Bytes) (st : Nat) :
    Shell.respStatus false ps1 st
      = Tty.echo false (Shell.echoStatusLine ++ [Tty.CR]) ++ (Tty.cook (Shell.statusBytes st ++ [Tty.LF]) ++ ps1) := by
  simp [Shell.respStatus, Shell.respCmd]

end Run
