import TbotVerif.Props.BoardChan
import TbotVerif.Spec.Board
/-! C18 — the simulation between the bring-up model and the reference monitor of `Spec/Board`:
    the invariant `Inv`, what a reading primitive (`rd`) and a writing primitive (`wr`) do to
    it, and the algebra of the monitor's read step (`rdAll`, `hitOf`). -/

namespace Board
open Chan Spec C06

/-! ### the monitor over a run of transport reads -/

theorem steps_append (c : Board.Case) : ∀ (e1 e2 : List Ev) (m : Mon),
    steps c m (e1 ++ e2) = (steps c m e1).bind fun m' => steps c m' e2 := by
  intro e1
  induction e1 with
  | nil => intro e2 m; rfl
  | cons e es ih =>
    intro e2 m
    simp only [List.cons_append, steps]
    cases step c m e with
    | none => rfl
    | some m' => exact ih e2 m'

/-- when the buffer first passes `f` at a delivery, along `recs` -/
def hitOf (f : Bytes → Bool) : Bytes → Option Nat → List ReadRec → Option Nat
  | _, h, [] => h
  | acc, h, r :: rs =>
    match r.data with
    | none => hitOf f acc h rs
    | some d =>
      hitOf f (acc ++ d) (match h with
                          | some x => some x
                          | none => if f (acc ++ d) then some r.t1 else none) rs

def textOf (ds : List Bytes) : List Char := (ds.map evText).flatten

theorem textOf_cons (d : Bytes) (ds : List Bytes) : textOf (d :: ds) = evText d ++ textOf ds := rfl
@[simp] theorem textOf_nil : textOf [] = [] := rfl

def rdAll (f : Bytes → Bool) (lg : Nat) (m : Mon) (recs : List ReadRec) : Mon := recs.foldl (rdStep f lg) m

theorem lastT1_cons (base : Nat) (r : ReadRec) (rs : List ReadRec) : lastT1 base (r :: rs) = lastT1 r.t1 rs := by
  have := lastT1_append base [r] rs
  simpa using this

theorem rdAll_eq (f : Bytes → Bool) (lg : Nat) : ∀ (recs : List ReadRec) (m : Mon),
    rdAll f lg m recs =
      { m with acc := m.acc ++ (dataOf recs).flatten, lastT := lastT1 m.lastT recs,
               hit := hitOf f m.acc m.hit recs,
               ulog := if lg = 1 then m.ulog ++ textOf (dataOf recs) else m.ulog,
               llog := if lg = 2 then m.llog ++ textOf (dataOf recs) else m.llog } := by
  intro recs
  induction recs with
  | nil => intro m; simp [rdAll, dataOf, hitOf]
  | cons r rs ih =>
    intro m
    show rdAll f lg (rdStep f lg m r) rs = _
    rw [ih]
    cases hd : r.data with
    | none =>
      simp only [rdStep, hd, dataOf_cons_none _ _ hd, hitOf, lastT1_cons]
    | some d =>
      simp only [rdStep, hd, dataOf_cons_some _ _ _ hd, hitOf, lastT1_cons, List.flatten_cons, List.append_assoc,
        textOf_cons]
      congr 1
      · split <;> simp
      · split <;> simp

theorem hitOf_some (f : Bytes → Bool) (h : Nat) : ∀ (recs : List ReadRec) (acc : Bytes), hitOf f acc (some h) recs = some h := by
  intro recs
  induction recs with
  | nil => intro acc; rfl
  | cons r rs ih =>
    intro acc
    unfold hitOf
    cases r.data with
    | none => exact ih acc
    | some d => exact ih (acc ++ d)

theorem hitOf_never (f : Bytes → Bool) : ∀ (recs : List ReadRec) (acc : Bytes),
    neverHits f acc (dataOf recs) = true → hitOf f acc none recs = none := by
  intro recs
  induction recs with
  | nil => intro acc _; rfl
  | cons r rs ih =>
    intro acc h
    unfold hitOf
    cases hd : r.data with
    | none =>
      rw [dataOf_cons_none _ _ hd] at h
      exact ih acc h
    | some d =>
      rw [dataOf_cons_some _ _ _ hd, neverHits_cons] at h
      simp only [Bool.and_eq_true, Bool.not_eq_true'] at h
      simp only [h.1, Bool.false_eq_true, if_false]
      exact ih (acc ++ d) h.2

theorem hitOf_end (f : Bytes → Bool) : ∀ (recs : List ReadRec) (acc : Bytes) (base : Nat),
    hitsOnlyAtEnd f acc (dataOf recs) = true → (∀ x ∈ recs, x.data.isSome = true) →
    hitOf f acc none recs = some (lastT1 base recs) := by
  intro recs
  induction recs with
  | nil => intro acc base h; simp [dataOf] at h
  | cons r rs ih =>
    intro acc base h hall
    have hr := hall r (List.mem_cons_self ..)
    cases hd : r.data with
    | none => rw [hd] at hr; simp at hr
    | some d =>
      rw [dataOf_cons_some _ _ _ hd, hitsOnlyAtEnd_cons] at h
      unfold hitOf
      simp only [hd, lastT1_cons]
      cases rs with
      | nil =>
        simp only [dataOf_nil, if_true] at h
        simp [h, hitOf]
      | cons r2 rs2 =>
        have hr2 := hall r2 (List.mem_cons_of_mem _ (List.mem_cons_self ..))
        cases hd2 : r2.data with
        | none => rw [hd2] at hr2; simp at hr2
        | some d2 =>
          have hne : dataOf (r2 :: rs2) ≠ [] := by rw [dataOf_cons_some _ _ _ hd2]; simp
          simp only [hne, if_false, Bool.and_eq_true, Bool.not_eq_true'] at h
          simp only [h.1, Bool.false_eq_true, if_false]
          exact ih (acc ++ d) r.t1 h.2 fun x hx => hall x (List.mem_cons_of_mem _ hx)

theorem rdStep_ph (f : Bytes → Bool) (lg : Nat) (m : Mon) (r : ReadRec) : (rdStep f lg m r).ph = m.ph := by
  unfold rdStep; split <;> rfl

/-- a run of transport reads in a reading phase -/
theorem steps_rds (c : Board.Case) : ∀ (recs : List ReadRec) (m : Mon), reading m.ph = true →
    steps c m (recs.map .rd) = some (rdAll (awaited c m.ph) (logId m.ph) m recs) := by
  intro recs
  induction recs with
  | nil => intro m _; rfl
  | cons r rs ih =>
    intro m h
    simp only [List.map_cons, steps, step, h, if_true]
    have hph := rdStep_ph (awaited c m.ph) (logId m.ph) m r
    rw [ih _ (by rw [hph]; exact h), hph]
    rfl

/-! ### bootlogs -/

theorem logOf_append (id : Nat) (a b : List (Nat × Bytes)) : logOf id (a ++ b) = logOf id a ++ logOf id b := by
  simp [logOf, List.filter_append]

theorem logOf_fwdOf_nil (id : Nat) (ds : List Bytes) : logOf id (fwdOf [] ds) = [] := by
  simp [logOf, fwdOf]

theorem logOf_fwdOf_one (id k : Nat) : ∀ ds : List Bytes,
    logOf id (fwdOf [k] ds) = if k = id then textOf ds else [] := by
  intro ds
  induction ds with
  | nil => simp [logOf, fwdOf]
  | cons d ds ih =>
    have : fwdOf [k] (d :: ds) = [(k, d)] ++ fwdOf [k] ds := by simp [fwdOf]
    rw [this, logOf_append, ih]
    by_cases hk : k = id
    · simp [hk, logOf, textOf_cons]
    · simp [hk, logOf]

/-! ### the invariant -/

/-- every piece the console can still show is non-empty -/
def ConOk (con : List Stage) : Prop := ∀ st ∈ con, ∀ p ∈ st.out, p.2 ≠ []

structure Inv (c : Board.Case) (b : BS) (m : Mon) : Prop where
  mon : steps c {} b.evs = some m
  calm : Calm b.st
  accept : b.st.accept = []
  slow : b.st.slowDelay = none
  slice : b.st.slice = Params.sendSliceSize
  con : ConOk b.con
  ulog : logOf 1 b.st.fwd = m.ulog
  llog : logOf 2 b.st.fwd = m.llog

/-- the streams attached in a phase of the monitor -/
def streamsOf (ph : Ph) : List Nat := if logId ph = 0 then [] else [logId ph]

/-- what a reading primitive leaves alone -/
structure RdSim (b : BS) (m : Mon) (b' : BS) (m' : Mon) : Prop where
  con : b'.con = b.con
  ubLog : b'.ubLog = b.ubLog
  lnxLog : b'.lnxLog = b.lnxLog
  prompt : b'.st.prompt = b.st.prompt
  blacklist : b'.st.blacklist = b.st.blacklist
  streams : b'.st.streams = b.st.streams
  mono : b.st.now ≤ b'.st.now
  ph : m'.ph = m.ph
  start : m'.start = m.start
  t0 : m'.t0 = m.t0
  ubSet : m'.ubSet = m.ubSet
  lnxSet : m'.lnxSet = m.lnxSet
  lastT : m'.lastT = b'.st.now
  ulog : logId m.ph ≠ 1 → m'.ulog = m.ulog
  llog : logId m.ph ≠ 2 → m'.llog = m.llog

theorem Calm.cutReads {s : St} (h : Calm s) : Calm { s with reads := [] } := ⟨h.wf, h.chunk, h.deaths, h.lp⟩

/-- any reading channel method, given its `Rd` package: the monitor follows, the invariant stays -/
theorem sim_rd {α : Type} (op : St → Res α) (c : Board.Case) (b : BS) (m : Mon) (hinv : Inv c b m)
    (hread : reading m.ph = true) (hlast : m.lastT = b.st.now) (hstreams : b.st.streams = streamsOf m.ph)
    (T : Option Nat) (t0 : Nat) (recs : List ReadRec)
    (hrd : Rd T t0 { b.st with reads := [] } (op { b.st with reads := [] }).2 recs) :
    Inv c (rd op b).2 (rdAll (awaited c m.ph) (logId m.ph) m recs)
      ∧ RdSim b m (rd op b).2 (rdAll (awaited c m.ph) (logId m.ph) m recs)
      ∧ (rd op b).2.st = (op { b.st with reads := [] }).2 := by
  have hreads : (op { b.st with reads := [] }).2.reads = recs := by rw [hrd.frame.reads]; rfl
  have hcalm := hrd.calm hinv.calm.cutReads
  have heq := rdAll_eq (awaited c m.ph) (logId m.ph) recs m
  have hfwd := hrd.fwd
  have hst : ({ b.st with reads := [] } : St).streams = streamsOf m.ph := hstreams
  rw [hst] at hfwd
  refine ⟨⟨?_, hcalm, ?_, ?_, ?_, hinv.con, ?_, ?_⟩, ⟨rfl, rfl, rfl, hrd.frame.prompt, hrd.frame.blacklist, hrd.frame.streams,
    hrd.frame.now, ?_, ?_, ?_, ?_, ?_, ?_, ?_, ?_⟩, rfl⟩
  · show steps c {} (b.evs ++ (op { b.st with reads := [] }).2.reads.map .rd) = _
    rw [hreads, steps_append, hinv.mon]
    exact steps_rds c recs m hread
  · show (op { b.st with reads := [] }).2.accept = []
    rw [hrd.frame.accept]; exact hinv.accept
  · show (op { b.st with reads := [] }).2.slowDelay = none
    rw [hrd.frame.slowDelay]; exact hinv.slow
  · show (op { b.st with reads := [] }).2.slice = _
    rw [hrd.frame.slice]; exact hinv.slice
  · show logOf 1 (op { b.st with reads := [] }).2.fwd = _
    rw [hfwd, logOf_append, heq]
    show logOf 1 b.st.fwd ++ _ = _
    rw [hinv.ulog]
    unfold streamsOf
    by_cases h0 : logId m.ph = 0
    · simp [h0, logOf_fwdOf_nil]
    · simp only [h0, if_false, logOf_fwdOf_one]
      by_cases h1 : logId m.ph = 1
      · simp [h1]
      · simp [h1]
  · show logOf 2 (op { b.st with reads := [] }).2.fwd = _
    rw [hfwd, logOf_append, heq]
    show logOf 2 b.st.fwd ++ _ = _
    rw [hinv.llog]
    unfold streamsOf
    by_cases h0 : logId m.ph = 0
    · simp [h0, logOf_fwdOf_nil]
    · simp only [h0, if_false, logOf_fwdOf_one]
      by_cases h2 : logId m.ph = 2
      · simp [h2]
      · simp [h2]
  · rw [heq]
  · rw [heq]
  · rw [heq]
  · rw [heq]
  · rw [heq]
  · rw [heq]
    show lastT1 m.lastT recs = (op { b.st with reads := [] }).2.now
    rw [hlast]
    exact hrd.last
  · intro h; rw [heq]; simp [h]
  · intro h; rw [heq]; simp [h]

end Board
