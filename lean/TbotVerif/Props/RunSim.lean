import TbotVerif.Props.RunRead
/-! C10 — the simulation between the proxy model and the reference of `Spec.C10`: the invariant
    (`Sim`) and its preservation by the read-type calls. -/

namespace Run
open Chan Spec

/-- the death-string monitor of a running proxy: one registration — the prompt, with what was
    consumed since, not fired -/
def Mon1 (ps1 since : Bytes) (r : RunSt) : Prop :=
  ∃ m id, C05.Rel m r ∧ m.regs = [⟨id, .lit ps1, 0, since, false⟩] ∧ m.frames = [id]

/-- … of a proxy whose command has ended: the registration is still there (until `terminate`) -/
def MonE (r : RunSt) : Prop := ∃ m reg, C05.Rel m r ∧ m.regs = [reg] ∧ m.frames = [reg.id]

/-- the proxy model `p` and the reference `r` are in step -/
structure Sim (c : Case) (p : PSt) (r : Ref) : Prop where
  rem : p.rem = r.rem
  ps1 : p.ps1 = Run.prompt c
  good : C03.Good p.r.st
  pend : pending p.r.st = r.pend
  bl : p.r.st.blacklist = blacklist c
  prm : p.r.st.prompt = some (.lit (Run.prompt c))
  own : p.own = (Own.step {} (.borrowEnter 0)).2
  running : r.phase = .running → p.slot = true ∧ p.alive = true ∧ p.gen = true ∧ p.early = false
      ∧ Mon1 (Run.prompt c) r.since p.r
      ∧ promptOk (Run.prompt c) (r.since ++ r.pend) r.rem.status = true
      ∧ (r.rem.status.isSome = true → (Run.prompt c).length ≤ r.pend.length)
  ended : r.phase = .ended → p.slot = false ∧ p.alive = true ∧ p.gen = true ∧ p.early = true
      ∧ MonE p.r ∧ r.pend = [] ∧ r.rem.status.isSome = true
  terminated : r.phase = .terminated → p.alive = false ∧ p.slot = false ∧ r.pend = []

theorem c05_read_eq (m : DeathMon) (op : Op) (o : _root_.OpObs) (h : isReadOp op = true) (hp : plainOp op = true) :
    c05 m op o = ((c05Walk o.res (delivered o) m.regs).1, { m with regs := (c05Walk o.res (delivered o) m.regs).2 }) := by
  cases op <;> simp [plainOp] at hp <;> simp [c05, h] <;> simp [isReadOp] at h

theorem c05_quiet_eq (m : DeathMon) (op : Op) (o : _root_.OpObs) (h : isReadOp op = false) (hp : plainOp op = true) :
    c05 m op o = ((deathOf o.res).isNone, m) := by
  cases op <;> simp [plainOp] at hp <;> simp [c05, h] <;> simp [isReadOp] at h

theorem load_prompt (sizes : List Nat) (extra : Bytes) (r : RunSt) : (load sizes extra r).st.prompt = r.st.prompt := rfl
theorem load_blacklist (sizes : List Nat) (extra : Bytes) (r : RunSt) : (load sizes extra r).st.blacklist = r.st.blacklist := rfl

theorem keeps_cfg {r1 r2 : RunSt} {op : Op} {o : _root_.OpObs} (hk : ChanCase.Keeps r1 r2 op o)
    (hs : (Cfg.ofRun r1).step op = Cfg.ofRun r1) :
    r2.st.prompt = r1.st.prompt ∧ r2.st.blacklist = r1.st.blacklist := by
  have h := hk.cfg
  rw [hs] at h
  exact ⟨congrArg Cfg.prompt h, congrArg Cfg.blacklist h⟩

/-- what one read-type operation does on a channel with the prompt as only (unfired) death
    string, everything pending having arrived -/
theorem read_mon (ps1 since : Bytes) (hps : ps1 ≠ []) (r1 : RunSt) (op : Op) (hread : isReadOp op = true)
    (hplain : plainOp op = true) (hg : C03.Good r1.st) (hm : Mon1 ps1 since r1) :
    let o := (obsOp op r1).1
    let k := (sizesOf o).sum
    k ≤ (pending r1.st).length
    ∧ (delivered o).flatten = (pending r1.st).take k
    ∧ pending (obsOp op r1).2.st = (pending r1.st).drop k
    ∧ C03.Good (obsOp op r1).2.st
    ∧ ¬ Occurs ps1 since
    ∧ ((deathOf o.res).isSome = true ↔ Occurs ps1 (since ++ (pending r1.st).take k))
    ∧ ∃ m id, C05.Rel m (obsOp op r1).2
        ∧ m.regs = [⟨id, .lit ps1, 0, since ++ (pending r1.st).take k, (deathOf o.res).isSome⟩] ∧ m.frames = [id] := by
  intro o k
  obtain ⟨m, id, hrel, hregs, hframes⟩ := hm
  have hok : C05.opDeathOk op := by
    cases op <;> simp [plainOp] at hplain <;> exact trivial
  have hcons := consumed r1 op hg (by cases op <;> first | rfl | (simp [isReadOp] at hread))
  have hk := ChanCase.keeps r1 op hg (by cases op <;> first | rfl | (simp [isReadOp] at hread))
  obtain ⟨h1, h2⟩ := C05.c05_step m r1 op hrel hok
  rw [c05_read_eq m op _ hread hplain, hregs] at h1 h2
  simp only at h1 h2
  obtain ⟨hd, hregs'⟩ := walk_one _ ps1 id 0 _ since h1
  have hinv := hrel.inv ⟨id, .lit ps1, 0, since, false⟩ (by rw [hregs]; exact List.mem_cons_self ..)
  have hnocc : ¬ Occurs ps1 since := by
    intro ho
    have := (occurs_iff ps1 since).mpr ho
    have h3 := hinv.2 rfl
    simp only [Pat.search] at h3
    cases hf : findSub ps1 since with
    | none => rw [hf] at this; simp at this
    | some i => rw [hf] at h3; simp at h3
  have hflat : (delivered o).flatten = (pending r1.st).take k := hcons.2.1
  have hdeath : (deathOf o.res).isSome = (findSub ps1 (since ++ (pending r1.st).take k)).isSome := by
    rw [hd, hflat]
    cases hemp : (delivered o).isEmpty with
    | false => simp
    | true =>
      have : delivered o = [] := List.isEmpty_iff.mp hemp
      have hz : (pending r1.st).take k = [] := by rw [← hflat, this]; rfl
      rw [hz, List.append_nil]
      cases hf : (findSub ps1 since).isSome with
      | false => simp
      | true => exact absurd ((occurs_iff ps1 since).mp hf) hnocc
  refine ⟨hcons.1, hflat, hcons.2.2, hk.good, hnocc, ?_, ?_⟩
  · rw [hdeath]; exact occurs_iff _ _
  · refine ⟨_, id, h2, ?_, hframes⟩
    simp only
    rw [hregs', ← hd, hflat]

theorem consume_phase (k : Nat) (r : Ref) : (r.consume k).phase = r.phase := rfl
theorem consume_rem (k : Nat) (r : Ref) : (r.consume k).rem = r.rem := rfl
theorem consume_pend (k : Nat) (r : Ref) : (r.consume k).pend = r.pend.drop k := rfl
theorem consume_since (k : Nat) (r : Ref) : (r.consume k).since = r.since ++ r.pend.take k := rfl

theorem fin_iff (k : Nat) (r : Ref) : r.fin k = true ↔ (r.rem.status.isSome = true ∧ k = r.pend.length ∧ 0 < k) := by
  unfold Ref.fin
  simp only [Bool.and_eq_true, beq_iff_eq, decide_eq_true_eq, and_assoc]

/-- a read-type call of the running proxy is judged by the reference exactly as it behaves -/
theorem reading_sim (c : Case) (p : PSt) (r : Ref) (h : Sim c p r) (hph : r.phase = .running)
    (op : Op) (t : Option Nat) (hop : opTimeout op = some t) (sizes : List Nat) (val : TRes → Bytes → Bool)
    (hverr : ∀ tag buf, val (.err tag) buf = false)
    (hval : t ≠ some 0 → ∀ r1 : RunSt, C03.Good r1.st → Z r1.st → r1.st.prompt = some (.lit (prompt c)) →
      ReadRes val (obsOp op r1).1) :
    match Ref.reading (prompt c) t (proxyIO op sizes [] p).1 r val with
    | .ok r' => Sim c (proxyIO op sizes [] p).2 r'
    | .bad => False
    | _ => True := by
  by_cases ht : t = some 0
  · simp [Ref.reading, ht]
  obtain ⟨hslot, halive, hgen, hearly, hmon, hpok, hlenp⟩ := h.running hph
  have hread : isReadOp op = true := by cases op <;> simp [opTimeout] at hop <;> rfl
  have hplain : plainOp op = true := by cases op <;> simp [opTimeout] at hop <;> rfl
  have hopok : ChanCase.opOk op = true := by cases op <;> simp [opTimeout] at hop <;> rfl
  generalize hr1 : load sizes [] p.r = r1
  have hstep : (Cfg.ofRun r1).step op = Cfg.ofRun r1 := by cases op <;> simp [opTimeout] at hop <;> rfl
  have hg1 : C03.Good r1.st := by rw [← hr1]; exact load_good _ _ _ h.good
  have hz1 : Z r1.st := by rw [← hr1]; exact load_z _ _ _
  have hp1 : pending r1.st = r.pend := by rw [← hr1, load_pending, h.pend, List.append_nil]
  have hprm1 : r1.st.prompt = some (.lit (prompt c)) := by rw [← hr1]; exact h.prm
  have hbl1 : r1.st.blacklist = blacklist c := by rw [← hr1]; exact h.bl
  have hmon1 : Mon1 (prompt c) r.since r1 := by
    obtain ⟨m, id, hrel, hregs, hfr⟩ := hmon
    rw [← hr1]
    exact ⟨m, id, rel_load _ _ hrel, hregs, hfr⟩
  have hm := read_mon (prompt c) r.since (prompt_ne c) r1 op hread hplain hg1 hmon1
  have hzz := reading_z r1 op t hop ht hz1
  have hk := ChanCase.keeps r1 op hg1 hopok
  have hrr := hval ht r1 hg1 hz1 hprm1
  unfold proxyIO
  have hns : (!p.slot) = false := by rw [hslot]; rfl
  simp only [hns, Bool.false_eq_true, if_false, hr1]
  generalize obsOp op r1 = out at hm hzz hk hrr
  obtain ⟨o, r2⟩ := out
  simp only at hm hzz hk hrr ⊢
  obtain ⟨hkle, hflat, hpend2, hg2, hnocc, hdeath, m', id, hrel', hregs', hframes'⟩ := hm
  rw [hp1] at hkle hflat hpend2 hdeath hregs'
  obtain ⟨hprm2, hbl2⟩ := keeps_cfg hk hstep
  have hne := noEarly_of _ _ _ hpok
  have hocc := occurs_take_iff (prompt c) r.since r.pend r.rem.status.isSome (sizesOf o).sum hkle (prompt_ne c) hne hnocc
  have hfin : r.fin (sizesOf o).sum = true ↔ (deathOf o.res).isSome = true := by
    rw [fin_iff, hdeath, hocc]
  have hnotlt : ¬ r.pend.length < (sizesOf o).sum := by omega
  have htb : (t == some 0) = false := by rw [beq_eq_false_iff_ne]; exact ht
  have hstream : (r.since ++ r.pend.take (sizesOf o).sum) ++ r.pend.drop (sizesOf o).sum = r.since ++ r.pend := by
    rw [List.append_assoc, List.take_append_drop]
  -- the state of the running proxy after a read that did not end it
  have hrun : (deathOf o.res).isSome = false →
      (r.rem.status.isSome = true → (prompt c).length ≤ (r.pend.drop (sizesOf o).sum).length) →
      Sim c { p with r := r2 } (r.consume (sizesOf o).sum) := by
    intro hnd hlen2
    refine ⟨h.rem, h.ps1, hg2, by rw [consume_pend]; exact hpend2, by rw [hbl2]; exact hbl1,
      by rw [hprm2]; exact hprm1, h.own, ?_, ?_, ?_⟩
    · intro _
      refine ⟨hslot, halive, hgen, hearly, ⟨m', id, hrel', by rw [hregs', hnd]; rfl, hframes'⟩, ?_, hlen2⟩
      rw [consume_since, consume_pend, hstream]
      exact hpok
    · intro hc; rw [consume_phase, hph] at hc; simp at hc
    · intro hc; rw [consume_phase, hph] at hc; simp at hc
  cases hrr with
  | death x m he =>
    rw [he]
    simp only
    have hd : (deathOf o.res).isSome = true := by rw [he]; rfl
    have hf := hfin.mpr hd
    obtain ⟨hst, hkeq, _⟩ := (fin_iff _ _).mp hf
    simp only [Ref.reading, htb, hnotlt, hf, if_false, if_true, Bool.false_eq_true]
    refine ⟨h.rem, h.ps1, hg2, ?_, by rw [hbl2]; exact hbl1, by rw [hprm2]; exact hprm1, h.own, ?_, ?_, ?_⟩
    · show pending r2.st = r.pend.drop (sizesOf o).sum
      exact hpend2
    · intro hc; simp at hc
    · intro _
      refine ⟨rfl, halive, hgen, rfl, ⟨m', _, hrel', hregs', hframes'⟩, ?_, hst⟩
      show r.pend.drop (sizesOf o).sum = []
      rw [hkeq]; simp
    · intro hc; simp at hc
  | quiet e he hq =>
    have hscr := hzz.2.1 e he hq
    have hp0 : r.pend.drop (sizesOf o).sum = [] := by rw [← hpend2]; simp [pending, hscr]
    have hkeq : (sizesOf o).sum = r.pend.length := by
      have := congrArg List.length hp0
      simp only [List.length_drop, List.length_nil] at this
      omega
    have hnd : (deathOf o.res).isSome = false := by rw [he]; cases e <;> simp [quietErr] at hq <;> rfl
    have hnf : r.fin (sizesOf o).sum = false := by
      cases hf : r.fin (sizesOf o).sum with
      | false => rfl
      | true => rw [hfin.mp hf] at hnd; simp at hnd
    have hsim := hrun hnd (by
      intro hst
      exfalso
      have h1 := hlenp hst
      have h2 : ¬ (r.rem.status.isSome = true ∧ (sizesOf o).sum = r.pend.length ∧ 0 < (sizesOf o).sum) := by
        rw [← fin_iff, hnf]; simp
      have h3 : 0 < (prompt c).length := List.length_pos_iff.mpr (prompt_ne c)
      exact h2 ⟨hst, hkeq, by omega⟩)
    have hkb : ((sizesOf o).sum == r.pend.length) = true := by rw [hkeq]; exact beq_self_eq_true _
    rw [he]
    cases e with
    | timeout =>
      have hts : t.isSome = true := by
        cases t with
        | some T => rfl
        | none => exact absurd he (hzz.2.2.1 rfl)
      have hrd : Ref.reading (prompt c) t ⟨.err .timeout, sizesOf o⟩ r val = .ok (r.consume (sizesOf o).sum) := by
        unfold Ref.reading
        simp only [htb, Bool.false_eq_true, if_false, hnotlt, hts, hkb, hnf, Bool.not_false, Bool.and_self, if_true]
      simp only [resOf, tagOf]
      rw [hrd]
      exact hsim
    | hang =>
      have hts : t.isNone = true := by
        cases t with
        | none => rfl
        | some T => exact absurd he (hzz.2.2.2 rfl)
      have hrd : Ref.reading (prompt c) t ⟨.err .hang, sizesOf o⟩ r val = .ok (r.consume (sizesOf o).sum) := by
        unfold Ref.reading
        simp only [htb, Bool.false_eq_true, if_false, hnotlt, hts, hkb, hnf, Bool.not_false, Bool.and_self, if_true]
      simp only [resOf, tagOf]
      rw [hrd]
      exact hsim
    | death x m => simp [quietErr] at hq
    | illegal => simp [quietErr] at hq
    | assertion => simp [quietErr] at hq
    | fuel => simp [quietErr] at hq
  | value hnerr hv =>
    rw [hflat] at hv
    -- results that are no value for any of the three calls are excluded by `val`
    have hcases : (o.res = .unit ∨ (∃ tx, o.res = .text tx) ∨ ∃ i b m a, o.res = .expect i b m a) := by
      cases hres : o.res with
      | unit => exact Or.inl rfl
      | text tx => exact Or.inr (Or.inl ⟨tx, rfl⟩)
      | expect i b m a => exact Or.inr (Or.inr ⟨i, b, m, a, rfl⟩)
      | err e => exact absurd hres (hnerr e)
      | bytes b => rw [hres] at hv; simp [resOf, hverr] at hv
      | chunks cs e => rw [hres] at hv; simp [resOf, hverr] at hv
      | badop => rw [hres] at hv; simp [resOf, hverr] at hv
    have hnd : (deathOf o.res).isSome = false := by
      rcases hcases with h1 | ⟨tx, h1⟩ | ⟨i, b, m, a, h1⟩ <;> rw [h1] <;> rfl
    have hnf : r.fin (sizesOf o).sum = false := by
      cases hf : r.fin (sizesOf o).sum with
      | false => rfl
      | true => rw [hfin.mp hf] at hnd; simp at hnd
    have hgoal : ∀ res : TRes, val res (r.pend.take (sizesOf o).sum) = true → (∀ tg, res ≠ .err tg) →
        match Ref.reading (prompt c) t ⟨res, sizesOf o⟩ r val with
        | .ok r' => Sim c { p with r := r2 } r'
        | .bad => False
        | _ => True := by
      intro res hv' hne'
      have hreading : Ref.reading (prompt c) t ⟨res, sizesOf o⟩ r val
          = if r.leaves (prompt c) (sizesOf o).sum then .ok (r.consume (sizesOf o).sum) else .split := by
        unfold Ref.reading
        simp only [htb, Bool.false_eq_true, hnotlt, if_false]
        cases res with
        | err tg => exact absurd rfl (hne' tg)
        | unit => simp only [hnf, hv', Bool.not_true, Bool.or_self, Bool.false_eq_true, if_false]
        | text tx => simp only [hnf, hv', Bool.not_true, Bool.or_self, Bool.false_eq_true, if_false]
        | expect i b m a => simp only [hnf, hv', Bool.not_true, Bool.or_self, Bool.false_eq_true, if_false]
        | term rc out => simp only [hnf, hv', Bool.not_true, Bool.or_self, Bool.false_eq_true, if_false]
        | out out => simp only [hnf, hv', Bool.not_true, Bool.or_self, Bool.false_eq_true, if_false]
      rw [hreading]
      cases hl : r.leaves (prompt c) (sizesOf o).sum with
      | false => simp
      | true =>
        simp only [if_true]
        apply hrun hnd
        intro hst
        unfold Ref.leaves at hl
        simp only [Bool.or_eq_true, decide_eq_true_eq] at hl
        rcases hl with hl | hl
        · rw [Option.isSome_iff_ne_none] at hst
          simp only [Option.isNone_iff_eq_none] at hl
          exact absurd hl hst
        · simp only [List.length_drop]; omega
    rcases hcases with h1 | ⟨tx, h1⟩ | ⟨i, b, m, a, h1⟩
    · rw [h1] at hv ⊢
      simp only
      exact hgoal _ hv (by intro tg; simp [resOf])
    · rw [h1] at hv ⊢
      simp only
      exact hgoal _ hv (by intro tg; simp [resOf])
    · rw [h1] at hv ⊢
      simp only
      exact hgoal _ hv (by intro tg; simp [resOf])

end Run
