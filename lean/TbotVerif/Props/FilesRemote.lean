import TbotVerif.Spec.Files
import TbotVerif.Props.Quote
/-! C11 — the remote side: what a canonical-mode tty hands to `tee`, what the shell makes of the
    command lines `Path` builds, and the complete `Remote.session` for the three write protocols. -/

namespace Files
open Quote

/-! ### `islice` chunks -/

theorem chunksFuel_flatten (n : Nat) (hn : 0 < n) : ∀ (f : Nat) (b : Bytes), b.length ≤ f → (chunksFuel n f b).flatten = b := by
  intro f
  induction f with
  | zero =>
    intro b hb
    have : b = [] := List.length_eq_zero_iff.mp (by omega)
    subst this; rfl
  | succ f ih =>
    intro b hb
    cases b with
    | nil => rfl
    | cons c t =>
      simp only [chunksFuel, List.flatten_cons]
      rw [ih _ (by simp only [List.length_drop, List.length_cons] at hb ⊢; omega), List.take_append_drop]

theorem chunksOf_flatten (n : Nat) (hn : 0 < n) (b : Bytes) : (chunksOf n b).flatten = b := by
  unfold chunksOf
  rw [if_neg (by omega)]
  exact chunksFuel_flatten n hn _ _ (Nat.le_refl _)

theorem chunksFuel_mem (n : Nat) : ∀ (f : Nat) (b : Bytes) (l : Bytes), l ∈ chunksFuel n f b → ∀ c ∈ l, c ∈ b := by
  intro f
  induction f with
  | zero => intro b l hl; simp [chunksFuel] at hl
  | succ f ih =>
    intro b l hl c hc
    cases b with
    | nil => simp [chunksFuel] at hl
    | cons x t =>
      simp only [chunksFuel, List.mem_cons] at hl
      rcases hl with rfl | hl
      · exact List.mem_of_mem_take hc
      · exact List.mem_of_mem_drop (ih _ l hl c hc)

theorem chunksOf_mem (n : Nat) (b l : Bytes) (hl : l ∈ chunksOf n b) : ∀ c ∈ l, c ∈ b := by
  unfold chunksOf at hl
  split at hl
  · simp at hl
  · exact chunksFuel_mem n _ b l hl

/-! ### canonical-mode input -/

namespace Remote

/-- line buffer after typing `e` (no EOF character in `e`) on top of `buf` -/
def pend : Bytes → Bytes → Bytes
  | buf, [] => buf
  | buf, c :: e => if c == Tty.CR || c == Tty.LF then pend [] e else pend (buf ++ [c]) e

/-- what has been delivered to the reader meanwhile -/
def done : Bytes → Bytes → Bytes
  | _, [] => []
  | buf, c :: e => if c == Tty.CR || c == Tty.LF then buf ++ Tty.LF :: done [] e else done (buf ++ [c]) e

theorem done_pend (e : Bytes) : ∀ buf, done buf e ++ pend buf e = buf ++ Tty.input e := by
  induction e with
  | nil => intro buf; simp [done, pend, Tty.input]
  | cons c e ih =>
    intro buf
    unfold done pend
    by_cases h : (c == Tty.CR || c == Tty.LF) = true
    · simp only [h, if_true, List.append_assoc, List.cons_append]
      rw [ih []]
      have : Tty.input (c :: e) = Tty.LF :: Tty.input e := by
        simp only [Tty.input, List.map_cons]
        rcases Bool.or_eq_true_iff.mp h with h1 | h1
        · simp [h1]
        · rw [eq_of_beq h1]; simp [Tty.CR, Tty.LF]
      rw [this]; simp
    · have h' : (c == Tty.CR || c == Tty.LF) = false := Bool.eq_false_iff.mpr h
      simp only [h', Bool.false_eq_true, if_false]
      rw [ih]
      have hc : (c == Tty.CR) = false := by
        cases hh : c == Tty.CR with
        | false => rfl
        | true => simp [hh] at h'
      have : Tty.input (c :: e) = c :: Tty.input e := by
        simp only [Tty.input, List.map_cons, hc, Bool.false_eq_true, if_false]
      rw [this]; simp

/-- **the tty hands typed text to the reader line by line**: for text without the EOF character,
    reading `e ++ rest` delivers `done buf e` and goes on with the line buffer `pend buf e` -/
theorem ttyRead_text (e : Bytes) (heot : EOT ∉ e) : ∀ (buf rest : Bytes),
    ttyRead buf (e ++ rest) = (ttyRead (pend buf e) rest).map fun (d, r) => (done buf e ++ d, r) := by
  induction e with
  | nil =>
    intro buf rest
    simp only [List.nil_append, pend, done]
    cases ttyRead buf rest with
    | none => rfl
    | some v => rfl
  | cons c e ih =>
    intro buf rest
    have hc2 : (c == EOT) = false := by
      cases h : c == EOT with
      | false => rfl
      | true => exact absurd (by rw [eq_of_beq h]; simp) heot
    have heot' : EOT ∉ e := fun h => heot (List.mem_cons_of_mem _ h)
    simp only [List.cons_append, ttyRead, pend, done]
    by_cases h : (c == Tty.CR || c == Tty.LF) = true
    · simp only [h, if_true]
      rw [ih heot']
      cases ttyRead (pend [] e) rest with
      | none => rfl
      | some v => simp
    · have h' : (c == Tty.CR || c == Tty.LF) = false := Bool.eq_false_iff.mpr h
      simp only [h', hc2, Bool.false_eq_true, if_false]
      rw [ih heot']

/-- the end of the input: `^D` on an empty line buffer is end of file; on a non-empty one it only
    flushes the buffer (without a newline), a second `^D` is needed -/
theorem ttyRead_eof (buf rest : Bytes) :
    ttyRead buf ((if buf.isEmpty then [EOT] else [EOT, EOT]) ++ rest) = some (buf, rest) := by
  cases buf with
  | nil => simp [ttyRead, EOT, Tty.CR, Tty.LF]
  | cons b t => simp [ttyRead, EOT, Tty.CR, Tty.LF]

theorem pend_isEmpty_gen (e : Bytes) : ∀ buf, (pend buf e).isEmpty = if e.isEmpty then buf.isEmpty else endsInNl e := by
  induction e with
  | nil => intro buf; rfl
  | cons c e ih =>
    intro buf
    unfold pend
    by_cases h : (c == Tty.CR || c == Tty.LF) = true
    · simp only [h, if_true, ih, List.isEmpty_cons, Bool.false_eq_true, if_false]
      cases e with
      | nil =>
        simp only [List.isEmpty_nil, if_true, endsInNl, List.getLast?_singleton, Option.some_beq_some]
        rw [Bool.or_comm]; exact h.symm
      | cons d e' => simp [endsInNl, List.getLast?_cons_cons]
    · have h' : (c == Tty.CR || c == Tty.LF) = false := Bool.eq_false_iff.mpr h
      simp only [h', Bool.false_eq_true, if_false, ih, List.isEmpty_cons]
      cases e with
      | nil =>
        simp only [List.isEmpty_nil, if_true, endsInNl, List.getLast?_singleton, Option.some_beq_some]
        rw [Bool.or_comm, h']
        cases buf <;> rfl
      | cons d e' => simp [endsInNl, List.getLast?_cons_cons]

/-- **tbot's test for the second `^D` is the tty's**: after typing `e` (no EOF character) and
    `fin e`, the reader has received exactly `e` (CR read as LF) followed by end of file, and what
    was typed after that is left for the shell. -/
theorem ttyRead_all (e rest : Bytes) (heot : EOT ∉ e) : ttyRead [] (e ++ (fin e ++ rest)) = some (Tty.input e, rest) := by
  rw [ttyRead_text e heot]
  have hfin : fin e = if (pend [] e).isEmpty then [EOT] else [EOT, EOT] := by
    rw [pend_isEmpty_gen]
    unfold fin
    cases he : e.isEmpty with
    | true => simp
    | false => cases hn : endsInNl e <;> simp
  rw [hfin, ttyRead_eof]
  simp only [Option.map_some]
  rw [done_pend]
  simp

theorem input_id (e : Bytes) (h : Tty.CR ∉ e) : Tty.input e = e := by
  induction e with
  | nil => rfl
  | cons c e ih =>
    have hc : (c == Tty.CR) = false := by
      cases hh : c == Tty.CR with
      | false => rfl
      | true => exact absurd (by rw [eq_of_beq hh]; simp) h
    simp only [Tty.input, List.map_cons, hc, Bool.false_eq_true, if_false] at ih ⊢
    rw [ih (fun hm => h (List.mem_cons_of_mem _ hm))]

end Remote

/-! ### command lines -/

theorem q_printf : shlexQuote (str "printf") = str "printf" := by decide +kernel
theorem q_fmt : shlexQuote (str "%s") = str "%s" := by decide +kernel
theorem q_tee : shlexQuote (str "tee") = str "tee" := by decide +kernel
theorem q_base64 : shlexQuote (str "base64") = str "base64" := by decide +kernel
theorem q_d : shlexQuote (str "-d") = str "-d" := by decide +kernel
theorem q_dash : shlexQuote (str "-") = str "-" := by decide +kernel
theorem q_cat : shlexQuote (str "cat") = str "cat" := by decide +kernel
theorem q_devNull : shlexQuote devNull = devNull := by decide +kernel
theorem post_nil : str Params.spRedirStdoutPost = [] := by decide +kernel

/-- the redirection operator `>` -/
abbrev GT : Bytes := str Params.spRedirStdoutPre

theorem printfLine_eq (path data : Bytes) :
    printfLine path data
      = shlexQuote (str "printf") ++ SP :: (shlexQuote (str "%s") ++ SP :: (shlexQuote data ++ SP :: (GT ++ shlexQuote path))) := by
  simp [printfLine, lineOf, redirOut, Arg.render, joinSp, post_nil]

theorem teeLine_eq (path : Bytes) :
    teeLine path = shlexQuote (str "tee") ++ SP :: (shlexQuote path ++ SP :: (GT ++ devNull)) := by
  simp [teeLine, lineOf, redirOut, Arg.render, joinSp, post_nil, q_devNull]

theorem b64TeeLine_eq (path : Bytes) :
    b64TeeLine path = shlexQuote (str "base64") ++ SP :: (shlexQuote (str "-d") ++ SP :: (shlexQuote (str "-") ++ SP ::
      (str Params.spPipe ++ SP :: (shlexQuote (str "tee") ++ SP :: (shlexQuote path ++ SP :: (GT ++ devNull)))))) := by
  simp [b64TeeLine, lineOf, redirOut, Arg.render, joinSp, post_nil, q_devNull]

theorem catLine_eq (path : Bytes) : catLine path = shlexQuote (str "cat") ++ SP :: shlexQuote path := by
  simp [catLine, lineOf, Arg.render, joinSp]

theorem b64Line_eq (path : Bytes) : b64Line path = shlexQuote (str "base64") ++ SP :: shlexQuote path := by
  simp [b64Line, lineOf, Arg.render, joinSp]

theorem isPrefixOf_append' (a r : Bytes) : a.isPrefixOf (a ++ r) = true := by
  induction a with
  | nil => simp
  | cons x xs ih => simp [ih]

namespace Remote

/-- the shell reads `printf %s <data> ><path>` as: write `data` to `path` -/
theorem printfCmd_line (path data : Bytes) : printfCmd (printfLine path data) = some (path, data) := by
  rw [printfLine_eq]
  unfold printfCmd
  rw [firstWord_quote_sp]
  simp only
  rw [firstWord_quote_sp]
  simp only
  rw [firstWord_quote_sp]
  simp only [beq_self_eq_true, Bool.true_and, isPrefixOf_append', if_true, List.drop_left, firstWord_quote_end]

theorem printfCmd_none (line w1 : Bytes) (r : Option Bytes) (h : firstWord line = some (w1, r))
    (hw : (w1 == str "printf") = false) : printfCmd line = none := by
  unfold printfCmd
  rw [h]
  cases r with
  | none => rfl
  | some r1 =>
    simp only
    cases firstWord r1 with
    | none => rfl
    | some v =>
      obtain ⟨w2, r2⟩ := v
      cases r2 with
      | none => rfl
      | some r2 =>
        simp only
        cases firstWord r2 with
        | none => rfl
        | some v3 =>
          obtain ⟨w3, r3⟩ := v3
          cases r3 with
          | none => rfl
          | some r3 => simp [hw]

theorem printfCmd_teeLine (path : Bytes) : printfCmd (teeLine path) = none := by
  apply printfCmd_none _ (str "tee") (some (shlexQuote path ++ SP :: (GT ++ devNull)))
  · rw [teeLine_eq, firstWord_quote_sp]
  · decide +kernel

theorem printfCmd_b64TeeLine (path : Bytes) : printfCmd (b64TeeLine path) = none := by
  rw [b64TeeLine_eq]
  apply printfCmd_none _ (str "base64") _ (firstWord_quote_sp _ _)
  decide +kernel

theorem teeCmd_teeLine (path : Bytes) : teeCmd (teeLine path) = some (false, path) := by
  rw [teeLine_eq, q_tee]
  unfold teeCmd
  have h1 : (str "tee ").isPrefixOf (str "tee" ++ SP :: (shlexQuote path ++ SP :: (GT ++ devNull))) = true := by
    have : str "tee" ++ SP :: (shlexQuote path ++ SP :: (GT ++ devNull)) = str "tee " ++ (shlexQuote path ++ SP :: (GT ++ devNull)) := by
      have : str "tee " = str "tee" ++ [SP] := by decide +kernel
      rw [this]; simp
    rw [this]; exact isPrefixOf_append' _ _
  have h2 : (str "tee" ++ SP :: (shlexQuote path ++ SP :: (GT ++ devNull))).drop 4 = shlexQuote path ++ SP :: (GT ++ devNull) := by
    have : str "tee" = [116, 101, 101] := by decide +kernel
    rw [this]; rfl
  simp only [h1, if_true, h2, firstWord_quote_sp, beq_self_eq_true, Option.map_some]

theorem teeCmd_b64TeeLine (path : Bytes) : teeCmd (b64TeeLine path) = some (true, path) := by
  rw [b64TeeLine_eq, q_base64, q_d, q_dash, q_tee]
  unfold teeCmd
  have hpre : str "base64" ++ SP :: (str "-d" ++ SP :: (str "-" ++ SP :: (str Params.spPipe ++ SP :: (str "tee" ++ SP ::
      (shlexQuote path ++ SP :: (GT ++ devNull))))))
      = (str "base64 -d - " ++ str Params.spPipe ++ str " tee ") ++ (shlexQuote path ++ SP :: (GT ++ devNull)) := by
    have : str "base64 -d - " ++ str Params.spPipe ++ str " tee "
        = str "base64" ++ SP :: (str "-d" ++ SP :: (str "-" ++ SP :: (str Params.spPipe ++ SP :: (str "tee" ++ [SP])))) := by
      decide +kernel
    rw [this]; simp
  rw [hpre]
  have h0 : (str "tee ").isPrefixOf ((str "base64 -d - " ++ str Params.spPipe ++ str " tee ") ++ (shlexQuote path ++ SP :: (GT ++ devNull))) = false := by
    have : str "base64 -d - " ++ str Params.spPipe ++ str " tee " = 98 :: (str "ase64 -d - " ++ str Params.spPipe ++ str " tee ") := by
      decide +kernel
    rw [this]
    have h2 : str "tee " = 116 :: str "ee " := by decide +kernel
    rw [h2]
    simp [List.isPrefixOf]
  simp only [h0, Bool.false_eq_true, if_false, isPrefixOf_append', if_true, List.drop_left, firstWord_quote_sp,
    beq_self_eq_true, Option.map_some]

theorem firstLine_eq (line rest : Bytes) (h : Tty.CR ∉ line) : firstLine (line ++ Tty.CR :: rest) = some (line, rest) := by
  unfold firstLine
  have hc : (line ++ Tty.CR :: rest).contains Tty.CR = true := by simp
  rw [hc]
  simp only [if_true]
  have : ∀ l : Bytes, Tty.CR ∉ l → (l ++ Tty.CR :: rest).takeWhile (· != Tty.CR) = l
      ∧ (l ++ Tty.CR :: rest).dropWhile (· != Tty.CR) = Tty.CR :: rest := by
    intro l
    induction l with
    | nil => intro _; simp
    | cons c l ih =>
      intro hl
      have hc : (c != Tty.CR) = true := by
        cases hh : c == Tty.CR with
        | false => simp [bne, hh]
        | true => exact absurd (by rw [eq_of_beq hh]; simp) hl
      have := ih (fun hm => hl (List.mem_cons_of_mem _ hm))
      simp only [List.cons_append, List.takeWhile_cons, List.dropWhile_cons, hc, if_true]
      exact ⟨by rw [this.1], this.2⟩
  obtain ⟨h1, h2⟩ := this line h
  rw [h1, h2]
  rfl

theorem filter_eot_self (e : Bytes) (h : EOT ∉ e) : e.filter (· != EOT) = e := by
  apply List.filter_eq_self.mpr
  intro a ha
  cases hh : a == EOT with
  | false => simp [bne, hh]
  | true => exact absurd (by rw [← eq_of_beq hh]; exact ha) h

theorem filter_eot_fin (e : Bytes) : (fin e).filter (· != EOT) = [] := by
  unfold fin
  split <;> simp

/-- **the remote's view of a `tee` transfer**: the command line `line` (which the shell reads as a
    `tee` pipeline into `path`), the data `e` (no EOF character) and the `^D`s tbot sends after it,
    then `echo $?` — the file holds exactly `e` (CR read as LF; decoded when the pipeline starts
    with `base64 -d`), the answer is the echo of everything typed but the `^D`s. -/
theorem session_tee (cd : Codec) (ps1 line path : Bytes) (viaB64 : Bool) (e : Bytes) (hline : Tty.CR ∉ line)
    (hpf : printfCmd line = none) (htee : teeCmd line = some (viaB64, path)) (heot : EOT ∉ e) :
    session cd ps1 (line ++ [Tty.CR] ++ e ++ fin e ++ (Shell.echoStatusLine ++ [Tty.CR]))
      = some ⟨path, if viaB64 then cd.dec (Tty.input e) else Tty.input e,
              Tty.echo false (line ++ [Tty.CR]) ++ Tty.echo false e ++ ps1, Shell.respStatus false ps1 0⟩ := by
  have hshape : line ++ [Tty.CR] ++ e ++ fin e ++ (Shell.echoStatusLine ++ [Tty.CR])
      = line ++ Tty.CR :: (e ++ (fin e ++ (Shell.echoStatusLine ++ [Tty.CR]))) := by simp
  rw [hshape]
  unfold session
  rw [firstLine_eq _ _ hline]
  simp only [hpf, htee, ttyRead_all _ _ heot, beq_self_eq_true, if_true]
  have hbody : (e ++ (fin e ++ (Shell.echoStatusLine ++ [Tty.CR]))).take
      ((e ++ (fin e ++ (Shell.echoStatusLine ++ [Tty.CR]))).length - (Shell.echoStatusLine ++ [Tty.CR]).length) = e ++ fin e := by
    rw [← List.append_assoc]
    rw [List.take_left']
    simp only [List.length_append]
    omega
  rw [hbody]
  unfold echoTyped
  rw [List.filter_append, filter_eot_self e heot, filter_eot_fin]
  simp

/-- the remote's view of the `printf` fast path -/
theorem session_printf (cd : Codec) (ps1 path data : Bytes) (hline : Tty.CR ∉ printfLine path data) :
    session cd ps1 (printfLine path data ++ [Tty.CR] ++ (Shell.echoStatusLine ++ [Tty.CR]))
      = some ⟨path, data, Tty.echo false (printfLine path data ++ [Tty.CR]) ++ ps1, Shell.respStatus false ps1 0⟩ := by
  have hshape : printfLine path data ++ [Tty.CR] ++ (Shell.echoStatusLine ++ [Tty.CR])
      = printfLine path data ++ Tty.CR :: (Shell.echoStatusLine ++ [Tty.CR]) := by simp
  rw [hshape]
  unfold session
  rw [firstLine_eq _ _ hline]
  simp only [printfCmd_line, beq_self_eq_true, if_true]

end Remote

end Files
