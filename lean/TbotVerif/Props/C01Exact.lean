import TbotVerif.Props.C02Extra
import TbotVerif.Props.C03Write
import TbotVerif.Props.C08Overlap
import TbotVerif.Props.Tty
/-! C01 — EXACT results of the channel operations `Bash.exec` is made of, on a script whose
    content is known: `read(n)` returns the first `n` bytes, `read_until_prompt` everything up
    to the first prompt, `send(read_back=True)` writes the payload and consumes its echo —
    for every fragmentation, every arrival schedule (no timeout is involved), every chunk size
    and every partial-write oracle.  `Fr` is the frame all of them respect. -/

namespace C01
open Chan Spec

/-- what no I/O step changes (when no death string is registered), plus the two facts about
    the log-stream hold-back buffer the shell driver relies on -/
structure Fr (s s' : St) : Prop where
  chunk : s'.chunk = s.chunk
  slice : s'.slice = s.slice
  prompt : s'.prompt = s.prompt
  deaths : s'.deaths = s.deaths
  nextDeath : s'.nextDeath = s.nextDeath
  streams : s'.streams = s.streams
  logPrompt : s'.logPrompt = s.logPrompt
  blacklist : s'.blacklist = s.blacklist
  slowDelay : s'.slowDelay = s.slowDelay
  slowChunk : s'.slowChunk = s.slowChunk
  /-- with no stream attached nothing is forwarded or held back -/
  quiet : s.streams = [] → s'.fwd = s.fwd ∧ s'.streambuf = s.streambuf
  /-- the hold-back buffer never grows beyond the length of a literal prompt -/
  held : ∀ p, s.prompt = some (.lit p) → s.streambuf.length ≤ p.length → s'.streambuf.length ≤ p.length

theorem Fr.refl (s : St) : Fr s s :=
  ⟨rfl, rfl, rfl, rfl, rfl, rfl, rfl, rfl, rfl, rfl, fun _ => ⟨rfl, rfl⟩, fun _ _ h => h⟩

theorem Fr.trans {a b c : St} (h1 : Fr a b) (h2 : Fr b c) : Fr a c where
  chunk := by rw [h2.chunk, h1.chunk]
  slice := by rw [h2.slice, h1.slice]
  prompt := by rw [h2.prompt, h1.prompt]
  deaths := by rw [h2.deaths, h1.deaths]
  nextDeath := by rw [h2.nextDeath, h1.nextDeath]
  streams := by rw [h2.streams, h1.streams]
  logPrompt := by rw [h2.logPrompt, h1.logPrompt]
  blacklist := by rw [h2.blacklist, h1.blacklist]
  slowDelay := by rw [h2.slowDelay, h1.slowDelay]
  slowChunk := by rw [h2.slowChunk, h1.slowChunk]
  quiet := by
    intro h
    have q1 := h1.quiet h
    have q2 := h2.quiet (by rw [h1.streams]; exact h)
    exact ⟨by rw [q2.1, q1.1], by rw [q2.2, q1.2]⟩
  held := by
    intro p hp hl
    exact h2.held p (by rw [h1.prompt]; exact hp) (h1.held p hp hl)

/-- a step that only touches transport position, clock, logs and the accept oracle -/
theorem Fr.of_eq {s s' : St} (h1 : s'.chunk = s.chunk) (h2 : s'.slice = s.slice) (h3 : s'.prompt = s.prompt)
    (h4 : s'.deaths = s.deaths) (h5 : s'.nextDeath = s.nextDeath) (h6 : s'.streams = s.streams)
    (h7 : s'.logPrompt = s.logPrompt) (h8 : s'.blacklist = s.blacklist) (h9 : s'.slowDelay = s.slowDelay)
    (h10 : s'.slowChunk = s.slowChunk) (h11 : s'.fwd = s.fwd) (h12 : s'.streambuf = s.streambuf) : Fr s s' :=
  ⟨h1, h2, h3, h4, h5, h6, h7, h8, h9, h10, fun _ => ⟨h11, h12⟩, fun _ _ h => by rw [h12]; exact h⟩

/-! ### the log stream -/

/-- forwarding to attached streams: only `fwd` and the hold-back buffer change -/
theorem fr_stream (s : St) (fwd' : List (Nat × Bytes)) (sb' : Bytes) (hne : s.streams ≠ [])
    (hlen : ∀ p, s.prompt = some (.lit p) → s.streambuf.length ≤ p.length → sb'.length ≤ p.length) :
    Fr s { s with fwd := fwd', streambuf := sb' } :=
  ⟨rfl, rfl, rfl, rfl, rfl, rfl, rfl, rfl, rfl, rfl, fun h => absurd h hne, hlen⟩

theorem writeStream_fr (b : Bytes) (s : St) : Fr s (writeStream b s) := by
  unfold writeStream
  by_cases he : s.streams.isEmpty = true
  · rw [if_pos he]; exact Fr.refl s
  · rw [if_neg he]
    have hne : s.streams ≠ [] := by intro h; apply he; rw [h]; rfl
    cases hl : s.logPrompt with
    | true => exact fr_stream s _ _ hne (fun _ _ h => h)
    | false =>
      cases hp : s.prompt with
      | none => exact fr_stream s _ _ hne (fun _ _ h => h)
      | some pp =>
        cases pp with
        | lit q =>
          refine fr_stream s _ _ hne ?_
          intro p hp' _
          rw [hp] at hp'
          simp only [Option.some.injEq, Pat.lit.injEq] at hp'
          subst hp'
          have := C08.overlap_le q (s.streambuf ++ b) (min q.length (s.streambuf ++ b).length)
          simp only [List.length_drop]
          omega
        | re r =>
          refine fr_stream s _ _ hne ?_
          intro p hp' _
          rw [hp] at hp'
          simp at hp'

theorem writeStream_same (b : Bytes) (s : St) :
    (writeStream b s).script = s.script ∧ (writeStream b s).writes = s.writes
      ∧ (writeStream b s).accept = s.accept :=
  ⟨(writeStream_side b s).script, (writeStream_side b s).writes, (writeStream_side b s).accept⟩

/-! ### one resumption of `read_iter` -/

theorem ioRead_none_cons (n : Nat) (s : St) (pc : Piece) (ps : List Piece) (hs : s.script = pc :: ps) :
    ioRead n none s = ioDeliver n none s (if pc.tick ≤ s.now then s.now else pc.tick) pc ps := by
  unfold ioRead
  rw [hs]
  simp only
  split <;> rfl

/-- with no timeout, no death string and data left in the script, `read_iter` yields the head
    of the next piece (at most `maxRead` bytes) -/
theorem riNext_step (ri : RI) (s : St) (hto : ri.timeout = none)
    (hflag : (ri.started && ri.max == some ri.got) = false)
    (hne : s.script ≠ []) (hd : s.deaths = []) (hwf : WF s) (hpos : 0 < ri.maxRead s.chunk) :
    ∃ b s2, riNext ri s = (.chunk b, { ri with got := ri.got + b.length, started := true }, s2)
      ∧ b ≠ [] ∧ b.length ≤ ri.maxRead s.chunk ∧ b ++ flat s2.script = flat s.script ∧ WF s2
      ∧ Fr s s2 ∧ s2.writes = s.writes ∧ s2.accept = s.accept := by
  obtain ⟨pc, ps, hs⟩ : ∃ pc ps, s.script = pc :: ps := by
    cases hsc : s.script with
    | nil => exact absurd hsc hne
    | cons pc ps => exact ⟨pc, ps, rfl⟩
  have hth := takeHead_spec (ri.maxRead s.chunk) pc ps
  generalize hb : (takeHead (ri.maxRead s.chunk) pc ps).1 = b at hth
  generalize hrest : (takeHead (ri.maxRead s.chunk) pc ps).2 = sc' at hth
  generalize ht1 : (if pc.tick ≤ s.now then s.now else pc.tick) = t1
  generalize hrd : s.reads ++ [ReadRec.mk (ri.maxRead s.chunk) none s.now t1 (some b)] = rd
  generalize hs1 : ({ s with now := t1, script := sc', reads := rd } : St) = s1
  have hio : ioRead (ri.maxRead s.chunk) none s = (.ok b, s1) := by
    rw [ioRead_none_cons _ _ _ _ hs]
    unfold ioDeliver
    rw [hb, hrest, ht1, hrd, hs1]
  have hfr1 : Fr s s1 := by
    subst hs1
    exact Fr.of_eq rfl rfl rfl rfl rfl rfl rfl rfl rfl rfl rfl rfl
  have hd2 : (writeStream b s1).deaths = [] := by
    rw [(writeStream_fr b s1).deaths, hfr1.deaths, hd]
  have hsame := writeStream_same b s1
  refine ⟨b, writeStream b s1, ?_, ?_, hth.2.1, ?_, ?_, hfr1.trans (writeStream_fr b s1), ?_, ?_⟩
  · unfold riNext
    rw [hflag]
    simp only [Bool.false_eq_true, if_false]
    rw [hto]
    simp only [remaining]
    rw [hio]
    simp only
    rw [C02.check_nil b _ hd2]
  · exact hth.2.2.1 (hwf pc (by rw [hs]; exact List.mem_cons_self ..)) hpos
  · rw [hsame.1]
    subst hs1
    simp only [hs, flat, List.map_cons, List.flatten_cons]
    exact hth.1
  · have : ∀ q ∈ sc', q.data ≠ [] := hth.2.2.2 (by intro q hq; exact hwf q (by rw [hs]; exact hq))
    unfold WF
    rw [hsame.1]
    subst hs1
    exact this
  · rw [hsame.2.1]; subst hs1; rfl
  · rw [hsame.2.2]; subst hs1; rfl

theorem append_split {b x a rest : Bytes} (h : b ++ x = a ++ rest) (hl : b.length ≤ a.length) :
    a = b ++ a.drop b.length ∧ x = a.drop b.length ++ rest := by
  have h1 := congrArg (List.take b.length) h
  have h2 := congrArg (List.drop b.length) h
  rw [List.take_left', List.take_append_of_le_length hl] at h1
  rw [List.drop_left', List.drop_append_of_le_length hl] at h2
  refine ⟨?_, h2⟩
  rw [h1, List.length_take, Nat.min_eq_left hl, List.take_append_drop]
  all_goals rfl

theorem script_ne_of_flat {s : St} {a rest : Bytes} (h : flat s.script = a ++ rest) (ha : a ≠ []) :
    s.script ≠ [] := by
  intro hs
  rw [hs] at h
  simp only [flat, List.map_nil, List.flatten_nil] at h
  have := congrArg List.length h
  simp only [List.length_nil, List.length_append] at this
  have : 0 < a.length := List.length_pos_iff.mpr ha
  omega

/-! ### `read(n)` -/

/-- `read_iter(max = n)` pulled to exhaustion: exactly the next `n` bytes -/
theorem riTake_exact (n : Nat) : ∀ (f : Nat) (ri : RI) (s : St) (acc : List Bytes) (a rest : Bytes),
    ri.timeout = none → ri.max = some n → ri.got + a.length = n → (ri.started = false → a ≠ []) →
    s.deaths = [] → WF s → 0 < s.chunk → flat s.script = a ++ rest → a.length < f →
    ∃ cs s', riTake f none ri s acc = ((acc ++ cs, none), s') ∧ cs.flatten = a
      ∧ flat s'.script = rest ∧ WF s' ∧ Fr s s' ∧ s'.writes = s.writes ∧ s'.accept = s.accept := by
  intro f
  induction f with
  | zero => intro ri s acc a rest _ _ _ _ _ _ _ _ hf; omega
  | succ f ih =>
    intro ri s acc a rest hto hmax hgot hst hd hwf hc hflat hf
    unfold riTake
    simp only [reduceCtorEq, if_false]
    by_cases ha : a = []
    · -- everything has been delivered: the generator is exhausted
      subst ha
      have hstarted : ri.started = true := by
        cases h : ri.started with
        | true => rfl
        | false => exact absurd rfl (hst h)
      have hflag : (ri.started && ri.max == some ri.got) = true := by
        rw [hstarted, hmax]
        simp only [List.length_nil, Nat.add_zero] at hgot
        simp [hgot]
      have hnext : riNext ri s = (.done, ri, s) := by unfold riNext; rw [if_pos hflag]
      rw [hnext]
      exact ⟨[], s, by simp, rfl, by simpa using hflat, hwf, Fr.refl s, rfl, rfl⟩
    · have hapos : 0 < a.length := List.length_pos_iff.mpr ha
      have hflag : (ri.started && ri.max == some ri.got) = false := by
        rw [hmax]
        have : n ≠ ri.got := by omega
        simp [this]
      have hmr : ri.maxRead s.chunk = min s.chunk a.length := by
        unfold RI.maxRead
        rw [hmax]
        simp only
        congr 1
        omega
      obtain ⟨b, s2, hnext, hbne, hblen, hbflat, hwf2, hfr2, hw2, hac2⟩ :=
        riNext_step ri s hto hflag (script_ne_of_flat hflat ha) hd hwf (by rw [hmr]; omega)
      rw [hnext]
      simp only [Option.map_none]
      have hbl : b.length ≤ a.length := by rw [hmr] at hblen; omega
      have hbpos : 0 < b.length := List.length_pos_iff.mpr hbne
      obtain ⟨hsplit, hrest2⟩ := append_split (hbflat.trans hflat) hbl
      obtain ⟨cs, s', hrun, hcs, hfl, hwf', hfr', hw', hac'⟩ :=
        ih { ri with got := ri.got + b.length, started := true } s2 (acc ++ [b]) (a.drop b.length) rest
          hto hmax (by simp only [List.length_drop]; omega) (by intro h; simp at h)
          (by rw [hfr2.deaths]; exact hd) hwf2 (by rw [hfr2.chunk]; exact hc) hrest2
          (by simp only [List.length_drop]; omega)
      refine ⟨b :: cs, s', ?_, ?_, hfl, hwf', hfr2.trans hfr', by rw [hw', hw2], by rw [hac', hac2]⟩
      · rw [hrun]; simp
      · rw [List.flatten_cons, hcs]; exact hsplit.symm

/-- **`read(n)` EXACT**: when the script holds `a ++ rest` (cut and scheduled in any way),
    `read(|a|)` without timeout returns `a` and leaves `rest` -/
theorem read_exact (s : St) (a rest : Bytes) (ha : a ≠ []) (hd : s.deaths = []) (hwf : WF s)
    (hc : 0 < s.chunk) (hflat : flat s.script = a ++ rest) :
    ∃ s', Chan.read (some a.length) none s = (.ok a, s') ∧ flat s'.script = rest ∧ WF s'
      ∧ Fr s s' ∧ s'.writes = s.writes ∧ s'.accept = s.accept := by
  have hfuel : a.length < fuelFor s := by
    unfold fuelFor
    rw [bytesLeft_eq, hflat, List.length_append]
    omega
  obtain ⟨cs, s', hrun, hcs, hfl, hwf', hfr, hw, hac⟩ :=
    riTake_exact a.length (fuelFor s) (riStart (some a.length) none s) s [] a rest rfl rfl
      (by simp [riStart]) (fun _ => ha) hd hwf hc hflat hfuel
  refine ⟨s', ?_, hfl, hwf', hfr, hw, hac⟩
  unfold Chan.read
  simp only
  rw [hrun]
  simp only [List.nil_append, hcs, beq_self_eq_true, if_true]

/-! ### `read_until_prompt` -/

/-- the prompt occurs in `w` only at the very end -/
def NoEarly (p w : Bytes) : Prop := ∀ k, 0 < k → k ≤ w.length → p <:+ w.take k → k = w.length

theorem rupLoop_exact (p w : Bytes) (hsuf : p <:+ w) (honly : NoEarly p w) :
    ∀ (f : Nat) (buf : Bytes) (ri : RI) (s : St), ri.max = none → ri.timeout = none →
      (flat s.script).length < f → WF s → 0 < s.chunk → s.prompt = some (.lit p) → s.deaths = [] →
      s.script ≠ [] → buf ++ flat s.script = w →
      ∃ s', rupLoop f buf ri s = (.ok (w.take (w.length - p.length), w), s') ∧ s'.script = []
        ∧ Fr s s' ∧ s'.writes = s.writes ∧ s'.accept = s.accept := by
  intro f
  induction f with
  | zero => intro buf ri s _ _ hf; omega
  | succ f ih =>
    intro buf ri s hmax hto hf hwf hc hpr hd hne hw
    have hflag : (ri.started && ri.max == some ri.got) = false := by rw [hmax]; simp
    obtain ⟨b, s2, hnext, hbne, _, hflat, hwf2, hfr2, hw2, hac2⟩ :=
      riNext_step ri s hto hflag hne hd hwf (by rw [maxRead_none ri s.chunk hmax]; exact hc)
    unfold rupLoop
    rw [hnext]
    simp only
    rw [hfr2.prompt, hpr]
    simp only [promptEnd]
    have hblen : 0 < b.length := List.length_pos_iff.mpr hbne
    have hw' : (buf ++ b) ++ flat s2.script = w := by rw [List.append_assoc, hflat]; exact hw
    by_cases hrest : s2.script = []
    · have hall : buf ++ b = w := by rw [← hw', hrest]; simp [flat]
      rw [hall, if_pos (List.isSuffixOf_iff_suffix.mpr hsuf)]
      exact ⟨s2, rfl, hrest, hfr2, hw2, hac2⟩
    · have hfl : flat s2.script ≠ [] := fun h => hrest (C02.script_nil_of_flat hwf2 h)
      have hfl' : 0 < (flat s2.script).length := List.length_pos_iff.mpr hfl
      have hlen : (buf ++ b).length + (flat s2.script).length = w.length := by
        rw [← hw']; simp only [List.length_append]
      have hpre : buf ++ b = w.take (buf ++ b).length := by
        rw [← hw', List.take_left']
        rfl
      have hnot : p.isSuffixOf (buf ++ b) = false := by
        cases hsx : p.isSuffixOf (buf ++ b) with
        | false => rfl
        | true =>
          exfalso
          have h1 : p <:+ w.take (buf ++ b).length := by
            rw [← hpre]; exact List.isSuffixOf_iff_suffix.mp hsx
          have := honly (buf ++ b).length (by simp only [List.length_append]; omega) (by omega) h1
          omega
      rw [hnot]
      simp only [Bool.false_eq_true, if_false]
      have hbytes : (flat s2.script).length < f := by
        have := congrArg List.length hflat
        simp only [List.length_append] at this
        omega
      obtain ⟨s', hrun, hsc, hfr', hw3, hac3⟩ :=
        ih (buf ++ b) { ri with got := ri.got + b.length, started := true } s2 hmax hto hbytes hwf2 (by rw [hfr2.chunk]; exact hc) (by rw [hfr2.prompt]; exact hpr)
          (by rw [hfr2.deaths]; exact hd) hrest hw'
      exact ⟨s', hrun, hsc, hfr2.trans hfr', by rw [hw3, hw2], by rw [hac3, hac2]⟩

/-- **`read_until_prompt` EXACT**: the script holds `w`, which ends with the literal prompt `p`
    and contains it nowhere earlier; the call returns `w` minus the prompt and exhausts the
    script — for every fragmentation, arrival schedule and chunk size -/
theorem rup_exact (p w : Bytes) (hp : p ≠ []) (hsuf : p <:+ w) (honly : NoEarly p w)
    (s : St) (hpr : s.prompt = some (.lit p)) (hd : s.deaths = []) (hwf : WF s) (hc : 0 < s.chunk)
    (hflat : flat s.script = w) :
    ∃ s', readUntilPrompt none none s = (.ok (w.take (w.length - p.length), w), s') ∧ s'.script = []
      ∧ Fr s s' ∧ s'.writes = s.writes ∧ s'.accept = s.accept := by
  have hwne : w ≠ [] := by
    intro h
    subst h
    exact hp (List.suffix_nil.mp hsuf)
  have hne : s.script ≠ [] := by
    intro h
    rw [h] at hflat
    exact hwne hflat.symm
  obtain ⟨s', hrun, hrest⟩ := rupLoop_exact p w hsuf honly (fuelFor s) [] (riStart none none s) s rfl rfl
    (by unfold fuelFor; rw [bytesLeft_eq]; omega) hwf hc hpr hd hne (by simpa using hflat)
  refine ⟨s', ?_, hrest⟩
  unfold readUntilPrompt
  simp only
  rw [hrun]

/-! ### writing -/

theorem accepted_append (a b : List (Bytes × Nat)) : accepted (a ++ b) = accepted a ++ accepted b := by
  simp [accepted]

theorem ioWrite_same (buf : Bytes) (s : St) :
    (ioWrite buf s).2.deaths = s.deaths ∧ (ioWrite buf s).2.nextDeath = s.nextDeath
      ∧ (ioWrite buf s).2.fwd = s.fwd ∧ (ioWrite buf s).2.streambuf = s.streambuf
      ∧ (ioWrite buf s).2.script = s.script := by
  unfold ioWrite
  cases s.accept <;> exact ⟨rfl, rfl, rfl, rfl, rfl⟩

theorem writeLoop_same : ∀ (f : Nat) (buf : Bytes) (s : St),
    (writeLoop f buf s).deaths = s.deaths ∧ (writeLoop f buf s).nextDeath = s.nextDeath
      ∧ (writeLoop f buf s).fwd = s.fwd ∧ (writeLoop f buf s).streambuf = s.streambuf
      ∧ (writeLoop f buf s).script = s.script := by
  intro f
  induction f with
  | zero => intro buf s; exact ⟨rfl, rfl, rfl, rfl, rfl⟩
  | succ f ih =>
    intro buf s
    cases buf with
    | nil => exact ⟨rfl, rfl, rfl, rfl, rfl⟩
    | cons b t =>
      unfold writeLoop
      cases s.slowDelay with
      | none =>
        simp only
        have h1 := ioWrite_same (b :: t) s
        have h2 := ih ((b :: t).drop (ioWrite (b :: t) s).1) (ioWrite (b :: t) s).2
        exact ⟨h2.1.trans h1.1, h2.2.1.trans h1.2.1, h2.2.2.1.trans h1.2.2.1, h2.2.2.2.1.trans h1.2.2.2.1,
          h2.2.2.2.2.trans h1.2.2.2.2⟩
      | some d =>
        simp only
        have h1 := ioWrite_same ((b :: t).take s.slowChunk) s
        have h2 := ih ((b :: t).drop (ioWrite ((b :: t).take s.slowChunk) s).1)
          { (ioWrite ((b :: t).take s.slowChunk) s).2 with now := (ioWrite ((b :: t).take s.slowChunk) s).2.now + d }
        exact ⟨h2.1.trans h1.1, h2.2.1.trans h1.2.1, h2.2.2.1.trans h1.2.2.1, h2.2.2.2.1.trans h1.2.2.2.1,
          h2.2.2.2.2.trans h1.2.2.2.2⟩

/-- **`write` EXACT**: a payload without black-listed byte is accepted by the transport
    completely, in order, whatever the partial-write oracle says; nothing else changes -/
theorem write_exact (buf : Bytes) (s : St) (hsc : s.slowDelay.isSome → 0 < s.slowChunk)
    (hf : forbidden s.blacklist buf = false) :
    ∃ s', write buf false s = (.ok (), s') ∧ Fr s s' ∧ s'.script = s.script
      ∧ accepted s'.writes = accepted s.writes ++ buf := by
  obtain ⟨ws, hfr, _, hacc, _⟩ := C03.writeLoop_spec buf.length buf s (Nat.le_refl _) hsc
  have hsame := writeLoop_same buf.length buf s
  refine ⟨writeLoop buf.length buf s, ?_, ?_, hsame.2.2.2.2, ?_⟩
  · unfold write
    rw [hf]
    simp
  · exact Fr.of_eq hfr.chunk hfr.slice hfr.prompt hsame.1 hsame.2.1 hfr.streams hfr.logPrompt hfr.blacklist
      hfr.slowDelay hfr.slowChunk hsame.2.2.1 hsame.2.2.2.1
  · rw [hfr.writes, accepted_append, hacc]

/-! ### `send(read_back=True)` -/

theorem countNl_eq (c : Bytes) : c.length + countNl c = Tty.readBackLen c := by
  unfold countNl Tty.readBackLen Tty.CR Tty.LF
  omega

/-- the slice loop of `send` against a tty that echoes (ECHOCTL off): every slice is written
    and exactly its echo is read back -/
theorem sendLoop_exact : ∀ (f : Nat) (buf : Bytes) (t0 : Nat) (s : St) (rest : Bytes),
    buf.length < f → 0 < s.slice → 0 < s.chunk → (s.slowDelay.isSome → 0 < s.slowChunk) →
    s.deaths = [] → WF s → forbidden s.blacklist buf = false →
    flat s.script = Tty.echo false buf ++ rest →
    ∃ s', sendLoop f buf true none false t0 s = (.ok (), s') ∧ flat s'.script = rest ∧ WF s' ∧ Fr s s'
      ∧ accepted s'.writes = accepted s.writes ++ buf := by
  intro f
  induction f with
  | zero => intro buf t0 s rest hf; omega
  | succ f ih =>
    intro buf t0 s rest hf hsl hc hsc hd hwf hfb hflat
    cases buf with
    | nil =>
      refine ⟨s, rfl, by simpa [Tty.echo] using hflat, hwf, Fr.refl s, by simp⟩
    | cons b t =>
      unfold sendLoop
      simp only [if_true]
      generalize hck : (b :: t).take s.slice = ck
      have hckne : ck ≠ [] := by
        intro h
        have := congrArg List.length (hck.trans h)
        simp only [List.length_take, List.length_cons, List.length_nil] at this
        omega
      have hfck : forbidden s.blacklist ck = false := by
        cases h : forbidden s.blacklist ck with
        | false => rfl
        | true => rw [← hck] at h; rw [C03.forbidden_take _ _ _ h] at hfb; exact absurd hfb (by simp)
      have hfdrop : forbidden s.blacklist ((b :: t).drop s.slice) = false := by
        cases h : forbidden s.blacklist ((b :: t).drop s.slice) with
        | false => rfl
        | true => rw [C03.forbidden_drop _ _ _ h] at hfb; exact absurd hfb (by simp)
      obtain ⟨s1, hwr, hfr1, hsc1, hacc1⟩ := write_exact ck s hsc hfck
      rw [hwr]
      simp only [remaining]
      -- the echo of the whole payload starts with the echo of this slice
      have hecho : Tty.echo false (b :: t) = Tty.echo false ck ++ Tty.echo false ((b :: t).drop s.slice) := by
        rw [← Tty.echo_append, ← hck, List.take_append_drop]
      have hechone : Tty.echo false ck ≠ [] := by
        intro h
        have h1 := Tty.echo_length_noctl ck
        rw [h] at h1
        unfold Tty.readBackLen at h1
        have : 0 < ck.length := List.length_pos_iff.mpr hckne
        simp only [List.length_nil] at h1
        omega
      have hflat1 : flat s1.script = Tty.echo false ck ++ (Tty.echo false ((b :: t).drop s.slice) ++ rest) := by
        rw [hsc1, hflat, hecho, List.append_assoc]
      have hwf1 : WF s1 := by unfold WF; rw [hsc1]; exact hwf
      obtain ⟨s2, hrd, hflat2, hwf2, hfr2, hw2, _⟩ := read_exact s1 _ _ hechone
        (by rw [hfr1.deaths]; exact hd) hwf1 (by rw [hfr1.chunk]; exact hc) hflat1
      rw [Tty.echo_length_noctl, ← countNl_eq] at hrd
      rw [hrd]
      simp only
      have hfr12 := hfr1.trans hfr2
      obtain ⟨s', hrun, hfl', hwf', hfr', hacc'⟩ := ih ((b :: t).drop s2.slice) t0 s2 rest
        (by rw [hfr12.slice]; simp only [List.length_drop, List.length_cons] at hf ⊢; omega)
        (by rw [hfr12.slice]; exact hsl) (by rw [hfr12.chunk]; exact hc)
        (by rw [hfr12.slowDelay, hfr12.slowChunk]; exact hsc) (by rw [hfr12.deaths]; exact hd) hwf2
        (by rw [hfr12.blacklist, hfr12.slice]; exact hfdrop) (by rw [hfr12.slice]; exact hflat2)
      refine ⟨s', hrun, hfl', hwf', hfr12.trans hfr', ?_⟩
      rw [hacc', hw2, hacc1, List.append_assoc, hfr12.slice, ← hck, List.take_append_drop]

/-- **`sendline(read_back=True)` EXACT** against an echoing tty: the line and the Enter key
    are written (every slice completely, for every partial-write oracle) and exactly their echo
    is consumed from the transport -/
theorem sendline_exact (line : Bytes) (s : St) (rest : Bytes)
    (hsl : 0 < s.slice) (hc : 0 < s.chunk) (hsc : s.slowDelay.isSome → 0 < s.slowChunk)
    (hd : s.deaths = []) (hwf : WF s) (hfb : forbidden s.blacklist (line ++ [Tty.CR]) = false)
    (hflat : flat s.script = Tty.echo false (line ++ [Tty.CR]) ++ rest) :
    ∃ s', sendline line true none s = (.ok (), s') ∧ flat s'.script = rest ∧ WF s' ∧ Fr s s'
      ∧ accepted s'.writes = accepted s.writes ++ (line ++ [Tty.CR]) := by
  obtain ⟨s', hrun, h⟩ := sendLoop_exact ((line ++ [Tty.CR]).length + 1) (line ++ [Tty.CR]) s.now s rest
    (by omega) hsl hc hsc hd hwf hfb hflat
  refine ⟨s', ?_, h⟩
  unfold sendline send
  have h13 : (13 : Byte) = Tty.CR := rfl
  have hne : (line ++ [Tty.CR]).isEmpty = false := by cases line <;> rfl
  rw [h13, hfb, hne]
  simp only [Bool.false_eq_true, if_false, Bool.not_false, Bool.and_false]
  exact hrun

/-- a black-listed byte anywhere in the line (or the Enter key): `IllegalDataException`, and
    the state — in particular the write log — is untouched -/
theorem sendline_illegal (line : Bytes) (rb : Bool) (t : Option Nat) (s : St)
    (hfb : forbidden s.blacklist (line ++ [Tty.CR]) = true) :
    sendline line rb t s = (.error .illegal, s) := by
  unfold sendline send
  have h13 : (13 : Byte) = Tty.CR := rfl
  have hne : (line ++ [Tty.CR]).isEmpty = false := by cases line <;> rfl
  rw [h13, hfb, hne]
  simp

end C01
